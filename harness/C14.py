"""C14 -- Wildcards enumerate children / descendants once, tolerate misses, terminate."""
from collections import OrderedDict
from typing import List

from glom import glom, Path, T, PathAccessError, GlomError
import glom.core as gc

from vkit.common import start, reach, fail, known_open, concretize, OUT, run
from vkit.ob import Ob
import vkit.stubs  # noqa: F401

META = {
    'explanation': 'Object graphs (tree, DAG, cycles through and below the root, attribute objects, strings/sets/None, '
                   'containers whose element access or iteration raises) with symbolic leaves are traversed by the real '
                   "'*' / '**' code for every path of up to 3 segments with 0-2 wildcards at every position in dotted, Path "
                   'and T spelling and compared with a breadth-first reference (each container expanded once, visited by '
                   'identity, root included): same nested list by identity of entries; failing entries dropped; one list '
                   'level per wildcard; traversal bounded by fuel-counting containers.',
    'bounds': {
        'quick': {'graph shapes': 12, 'path length': '<= 3', 'wildcards per path': '0-2 (3 in thorough)', 'leaves': 'unbounded symbolic ints',
                  'segment alphabet': "{'*','**','k','a','0','zz'}"},
        'thorough': {'path length': '<= 4', 'wildcards per path': '0-3'},
    },
    'stubs': ['S3 glom_debug=True', 'S4 state reset'],
    'outside_claim': ['graphs with more than 7 containers', 'user-registered keys/iterate handlers (C13)'],
    'assumptions': [],
}


class Obj:
    def __init__(self, **kw):
        self.__dict__.update(kw)


class BadGet(dict):
    __slots__ = ()

    def __getitem__(self, k):
        if k == 'bad':
            raise RuntimeError('bad')
        return dict.__getitem__(self, k)


class BadIter:
    __slots__ = ()

    def __iter__(self):
        raise RuntimeError('no iteration')


class Tag(str):
    """a tagged string: str subclass whose instances have a __dict__"""


class Num(int):
    pass


class Bag(dict):
    """a user mapping: dict subclass WITHOUT __slots__, so instances have a __dict__ as well"""


class OBag(OrderedDict):
    pass


FUEL = [0]


class FuelDict(dict):
    """dict that counts accesses: a runaway traversal exhausts the fuel and raises inside the harness"""
    __slots__ = ()

    def keys(self):
        FUEL[0] -= 1
        if FUEL[0] < 0:
            raise MemoryError('traversal does not terminate')
        return dict.keys(self)


SCALARS = (int, str, bytes, float, type(None))


def children(v):
    if type(v) in SCALARS or (isinstance(v, SCALARS) and not hasattr(v, '__dict__')):
        return []
    if isinstance(v, SCALARS):
        return list(v.__dict__.values())      # an instance of a str / int subclass that carries attributes is an object
    if isinstance(v, dict):
        out = []
        for k in list(dict.keys(v)):
            try:
                out.append(v[k])
            except Exception:
                pass
        return out
    if isinstance(v, (list, tuple, set, frozenset)):
        return list(v)
    if isinstance(v, BadIter):
        return []
    if hasattr(v, '__dict__'):
        return list(v.__dict__.values())
    return []


def starstar(v):
    out = [v]
    seen = {id(v)}
    out.extend(children(v))
    i = 1
    while i < len(out):
        it = out[i]
        i += 1
        if id(it) in seen:
            continue
        seen.add(id(it))
        out.extend(children(it))
    return out


def ref_step(cur, op, seg):
    if op == 'P':
        if isinstance(cur, dict):
            return cur[seg]
        if isinstance(cur, (list, tuple)):
            return cur[int(seg)]
        return getattr(cur, seg)
    if op == '[':
        return cur[seg]
    return getattr(cur, seg)


def ref_eval(cur, steps):
    for i, (op, seg) in enumerate(steps):
        if op in ('x', 'X'):
            nxt = children(cur) if op == 'x' else starstar(cur)
            out = []
            for c in nxt:
                try:
                    out.append(ref_eval(c, steps[i + 1:]))
                except (KeyError, IndexError, AttributeError, TypeError, ValueError, RuntimeError):
                    pass
            return out
        cur = ref_step(cur, op, seg)
    return cur


def same(a, b, depth):
    """nested result lists (one level per wildcard) compared elementwise; entries by identity / scalar equality"""
    if depth > 0:
        if not (isinstance(a, list) and isinstance(b, list)) or len(a) != len(b):
            return False
        return all(same(x, y, depth - 1) for x, y in zip(a, b))
    if isinstance(b, SCALARS):
        return a == b
    return a is b


NSHAPE = 15
SHAPES = ['tree', 'dag', 'rootcycle', 'twocycle', 'listcycle', 'obj', 'mixed', 'badget', 'odict', 'scalar', 'empty', 'baditer', 'usermap', 'stdmaps', 'tagged']


def graph(shape, a, b):
    leaf = [a, b]
    if shape == 0:
        return FuelDict({'a': {'k': a, 'b': [{'k': b}, {'z': 3}]}, 'k': 0})
    if shape == 1:
        return FuelDict({'p': leaf, 'q': leaf, 'r': {'k': leaf}, 'a': {'a': leaf}})
    if shape == 2:
        r = FuelDict({'k': a})
        r['self'] = r
        r['a'] = r
        return r
    if shape == 3:
        x = FuelDict({'k': a})
        y = FuelDict({'k': b, 'back': x})
        x['fwd'] = y
        return FuelDict({'x': x, 'k': 0, 'a': y})
    if shape == 4:
        l = [a]
        l.append(l)
        return FuelDict({'l': l, 'a': l})
    if shape == 5:
        return Obj(k=a, o=Obj(k=b), s='str', n=None, a=Obj(a=Obj(k=a)))
    if shape == 6:
        return FuelDict({'s': 'abc', 'fs': frozenset([7]), 't': (Obj(k=a), {'k': b}), 'k': None, 'a': ['x', ('y',)]})
    if shape == 7:
        return BadGet(k=a, bad=2, sub={'k': b}, a=BadGet(bad=1, k=b))
    if shape == 8:
        return OrderedDict([('z', {'k': a}), ('a', {'k': b}), ('k', OrderedDict([('k', a)]))])
    if shape == 9:
        return a
    if shape == 10:
        return FuelDict()
    if shape == 12:
        # user mapping classes: dict subclasses whose instances also have a __dict__ (attributes are NOT children)
        inner = Bag(k=b, z=Bag(k=a))
        inner.note = 'an attribute, not an item'
        r = Bag(k=a, a=inner, l=[Bag(k=b)])
        r.k = 'attribute k'
        return r
    if shape == 14:
        # tokens: instances of str / int subclasses carrying attributes (reached below the start value)
        tok = Tag('tok')
        tok.k = a
        tok.sub = {'k': b}
        num = Num(5)
        num.k = b
        num.a = Tag('inner')
        return FuelDict({'k': tok, 'a': [num, 'plain'], 'z': Tag('bare')})
    if shape == 13:
        import collections
        dd = collections.defaultdict(None)            # no default_factory: a read never inserts
        dd['k'] = a
        dd['a'] = collections.Counter({'k': 2, 'zz': 1})
        return OBag([('k', b), ('a', dd), ('c', collections.Counter(k=a))])
    return FuelDict({'k': BadIter(), 'a': [BadIter(), {'k': a}]})


SEGTXT = ['*', '**', 'k', 'a', '0', 'zz']
NSEG = len(SEGTXT)


def build_path(cs, spelling):
    segs = []
    for c in cs:
        s = None
        for n in range(NSEG):
            if c == n:
                s = SEGTXT[n]
        segs.append(s)
    steps = []
    if spelling == 0:
        spec = '.'.join(segs)
        steps = [('x', None) if s == '*' else ('X', None) if s == '**' else ('P', s) for s in segs]
    elif spelling == 1:
        parts = [gc._T_STAR if s == '*' else gc._T_STARSTAR if s == '**' else s for s in segs]
        spec = Path(*parts)
        steps = [('x', None) if s == '*' else ('X', None) if s == '**' else ('P', s) for s in segs]
    else:
        spec = T
        for s in segs:
            if s == '*':
                spec = spec.__star__()
                steps.append(('x', None))
            elif s == '**':
                spec = spec.__starstar__()
                steps.append(('X', None))
            elif s == '0':
                spec = spec[0]
                steps.append(('[', 0))
            else:
                spec = spec[s]
                steps.append(('[', s))
    nstars = sum(1 for op, _ in steps if op in 'xX')
    return spec, steps, nstars


def _star_case(shape, cs, spelling, a, b, maxstars):
    spec, steps, nstars = build_path(cs, spelling)
    if nstars > maxstars:
        return True
    t = graph(shape, a, b)
    FUEL[0] = 10 ** 9
    exp = run(lambda: ref_eval(t, steps))
    FUEL[0] = 400
    got = run(lambda: glom(t, spec, glom_debug=True))
    if nstars == 0:
        if got.kind != exp.kind:
            return fail(why='plain path outcome', got=got, exp=exp)
        return True
    reach('star')
    if exp.kind == 'err':
        # a failing step *before* the first wildcard: ordinary access error
        return got.kind == 'err' or fail(why='expected an access error before the wildcard', got=got)
    if got.kind != 'ok':
        return fail(why='wildcard evaluation raised', got=got, steps=steps, shape=shape)
    if nstars > 1:
        reach('star2')
    if len(exp.value) > 1:
        reach('star_many')
    if not same(got.value, exp.value, nstars):
        return fail(why='differs from breadth-first reference', got=got.value, exp=exp.value, steps=steps, shape=shape)
    return True


def star1(shape: int, spelling: int, c0: int, a: int, b: int) -> bool:
    start()
    return _star_case(shape, [c0], spelling, a, b, 1)


def star2(shape: int, spelling: int, c0: int, c1: int, a: int, b: int) -> bool:
    start()
    return _star_case(shape, [c0, c1], spelling, a, b, 2)


def star3(shape: int, spelling: int, c0: int, c1: int, c2: int, maxstars: int, a: int, b: int) -> bool:
    start()
    return _star_case(shape, [c0, c1, c2], spelling, a, b, maxstars)


def star4(shape: int, spelling: int, c0: int, c1: int, c2: int, c3: int, a: int, b: int) -> bool:
    start()
    return _star_case(shape, [c0, c1, c2, c3], spelling, a, b, 3)


def star_off(shape: int, c0: int, a: int, b: int) -> bool:
    """with PATH_STAR off '*' and '**' in a dotted string are ordinary keys (T.__star__() still a wildcard)"""
    start()
    t = {'*': a, '**': b, 'k': [a, b]}
    gc.PATH_STAR = False
    try:
        import warnings
        with warnings.catch_warnings():
            warnings.simplefilter('ignore')
            g1 = glom(t, '*', glom_debug=True)
            g2 = glom(t, '**', glom_debug=True)
            g3 = glom(t, Path('k', gc._T_STAR), glom_debug=True)
    finally:
        gc.PATH_STAR = True
    reach('star_off')
    return (g1 == a and g2 == b and g3 == [a, b]) or fail(g1=g1, g2=g2, g3=g3)


# ---- Assign / Delete through wildcards act on every entry (ragged and empty containers included) -------------
def star_mutate(op: int, nw: int, final: int, style: int, s0: int, s1: int, s2: int, a: int, v: int) -> bool:
    import copy
    from glom import Assign, Delete
    from harness.mutlib import ragged, ragged_path
    start()
    op, nw, final, style = concretize(op, 0, 2), concretize(nw, 1, 3), concretize(final, 0, 2), concretize(style, 0, 2)
    s0, s1, s2 = concretize(s0, 0, 2), concretize(s1, 0, 2), concretize(s2, 0, 2)
    if OUT in (op, nw, final, style, s0, s1, s2):
        return True
    t, leaves = ragged(nw, [s0, s1, s2], final, a)
    holes = []
    if op == 2:
        # Delete(..., ignore_missing=True): every second entry (starting with the FIRST) lacks the element -- the entries
        # that have it are still all served, each independently of the others
        for i, lf in enumerate(leaves):
            if i % 2 == 0:
                holes.append(i)
                if final == 0:
                    del lf['v']
                elif final == 1:
                    del lf[:]
                else:
                    del lf.v
    before = [copy.deepcopy(l) for l in leaves]
    path = ragged_path(nw, final, style)
    got = run(lambda: glom(t, Assign(path, v) if op == 0 else Delete(path, ignore_missing=(op == 2)), glom_debug=True))
    reach('star_mutate')
    if op == 2 and len(leaves) > 1:
        reach('star_mutate_holes')
    if not leaves:
        reach('star_mutate_none')
    if got.kind != 'ok' or got.value is not t:
        return fail(why='a wildcard Assign/Delete over these entries must succeed (no entry: no-op)', got=got, n=len(leaves))
    for i, (lf, b) in enumerate(zip(leaves, before)):
        if i in holes:
            ok = (lf == b) if final != 2 else (lf.keep == b.keep and not hasattr(lf, 'v'))
        elif op == 0:
            ok = (lf['v'] == v and lf['keep'] == b['keep']) if final == 0 else ((lf[0] == v and lf[1:] == b[1:]) if final == 1 else (lf.v == v and lf.keep == b.keep))
        elif final == 0:
            ok = 'v' not in lf and lf.get('keep') == b['keep']
        elif final == 1:
            ok = lf == b[1:]
        else:
            ok = not hasattr(lf, 'v') and lf.keep == b.keep
        if not ok:
            return fail(why='not applied at every entry', leaf=lf, before=b, n=len(leaves), op=op)
    return True


def obligations(tier):
    q = tier == 'quick'
    obs = []
    for shape in range(NSHAPE):
        for sp in range(3):
            obs.append(Ob(star1, fixed={'shape': shape, 'spelling': sp}, pre='0 <= c0 < %d' % NSEG, name='star1_%s_sp%d' % (SHAPES[shape], sp)))
            obs.append(Ob(star2, fixed={'shape': shape, 'spelling': sp}, pre='0 <= c0 < %d and 0 <= c1 < %d' % (NSEG, NSEG),
                          name='star2_%s_sp%d' % (SHAPES[shape], sp)))
            if q and sp == 1 and shape not in (0, 2, 5):
                continue
            for c0 in range(NSEG):
                if q and c0 in (4, 5):
                    continue
                obs.append(Ob(star3, fixed={'shape': shape, 'spelling': sp, 'c0': c0, 'maxstars': 2 if q else 3},
                              pre='0 <= c1 < %d and 0 <= c2 < %d' % (NSEG, NSEG), name='star3_%s_sp%d_%d' % (SHAPES[shape], sp, c0)))
    if not q:
        for shape in (0, 1, 2, 3, 5, 7):
            for c0 in range(4):
                for c1 in range(4):
                    obs.append(Ob(star4, fixed={'shape': shape, 'spelling': 0, 'c0': c0, 'c1': c1}, pre='0 <= c2 < 4 and 0 <= c3 < 4',
                                  name='star4_%s_%d_%d' % (SHAPES[shape], c0, c1)))
    obs.append(Ob(star_off, fixed={'shape': 0, 'c0': 0}, name='star_off'))
    wp = '0 <= final <= 2 and 0 <= style <= 2 and 0 <= s0 <= 2 and 0 <= s1 <= 2 and 0 <= s2 <= 2'
    for op in (0, 1, 2):
        for nw in (1, 2, 3):
            obs.append(Ob(star_mutate, fixed={'op': op, 'nw': nw}, pre=wp, name='star_mutate_%s_w%d' % (['assign', 'delete', 'delete_ignore'][op], nw), timeout=200))
    obs.append(Ob(star_mutate, fixed={'op': 2, 'nw': 2}, pre=wp, twin='star_mutate_holes', name='star_mutate_delete_ignore_w2'))
    obs.append(Ob(star_mutate, fixed={'op': 0, 'nw': 2}, pre=wp, twin='star_mutate_none', name='star_mutate_assign_w2'))
    obs.append(Ob(star2, fixed={'shape': 3, 'spelling': 0}, pre='0 <= c0 < %d and 0 <= c1 < %d' % (NSEG, NSEG), twin='star2', name='star2_twocycle'))
    obs.append(Ob(star2, fixed={'shape': 3, 'spelling': 0}, pre='0 <= c0 < %d and 0 <= c1 < %d' % (NSEG, NSEG), twin='star_many', name='star2_twocycle'))
    obs.append(Ob(star1, fixed={'shape': 2, 'spelling': 2}, pre='0 <= c0 < %d' % NSEG, twin='star', name='star1_rootcycle'))
    return obs
