"""C05 -- Error messages carry a faithful target-spec trace down to the failing spec."""
import re
import traceback
from typing import List

from glom import (glom, T, S, Coalesce, Pipe, Spec, Auto, Switch, Or, M, GlomError, Val, Check, Match, CoalesceError, MatchError,
                  PathAccessError, Path)
from glom.core import bbrepr, TRACE_WIDTH, _format_trace_value, format_target_spec_trace
import glom.core as gc

from vkit.common import start, reach, fail, known_open, concretize, OUT, run
from vkit.ob import Ob
import vkit.stubs  # noqa: F401

ENGINE_ENV = {'VKIT_REAL_TRACEBACK': '1'}      # formatting is the subject here: no S2

META = {
    'explanation': 'Spec skeletons of depth 2 over {dict, list, tuple, Pipe, Spec, Auto, Coalesce, Or, Switch} are built from '
                   'decision variables; one failure of each kind (callable raises, missing key, Match reject, Check fail) is planted '
                   'at the leaf whose evaluation index equals a SYMBOLIC integer p, optionally after an earlier failure that a '
                   'Coalesce absorbed. str(error) -- produced by the real _finalize / traceback / format_target_spec_trace code -- is '
                   'parsed and compared with what the builder recorded: first line is the root target (truncation recomputed), the '
                   "ancestors' reprs appear in order among the Spec lines, the last Spec line is the failing spec and the last "
                   'Target line what it received, the last line is format_exception_only of the original error, attempted branches '
                   'appear with their X lines, forgiven branches do not. _format_trace_value is checked separately with symbolic '
                   'maxlen / repr length, and format_target_spec_trace with symbolic width.',
    'bounds': {
        'quick': {'skeleton depth': 2, 'node kinds': 9, 'fault kinds': '8 (callable raises Boom / Boom with a multi-line message holding caret and blank lines / KeyError / a class with its own __str__, missing key, Match reject, Check fail, unbound scope variable)', 'fault position p': 'symbolic', 'targets': 'short, long (truncated), non-ASCII',
                  'width': '50..120 via format_target_spec_trace(width=)', 'maxlen': '14..120'},
        'thorough': {'skeleton depth': 2, 'node kinds': '9 + leaf for the root and the first child, 5 for the second child', 'fault kinds': 'all 8 at every root'},
    },
    'stubs': ['S4 state reset', 'E1 (no short-circuit of repr) -- the real traceback module is used'],
    'outside_claim': ['TRACE_WIDTH is fixed at import (terminal width): widths are varied through format_target_spec_trace(width=) only',
                      'traces of errors raised in other threads (C20)'],
    'assumptions': ['all strings are concrete on every path; the solver closes the shape x fault-position space'],
}


class Boom(Exception):
    pass


COUNTER = [0]
PLANT = [None, None]
RECEIVED = {}
FAILED = []
FAULT = [0]
FAIL_SPECS = [None, T['nope'], Match('never-equal-to-this'), Check(equal_to='never-equal-to-this'), S['never_bound'], None, None, None]


# a message as parsers print them: a pointer line made of spaces and carets, a blank line, more text
MULTILINE = 'bad token, planted at %s\n  x = $\n      ^\n\n  ~~~\nsee above'


class StrBoom(Exception):
    """an error class that renders itself (as KeyError, OSError, ... and many application errors do)"""
    def __str__(self):
        return 'custom text of %s' % (self.args,)


class Leaf:
    """fails when its evaluation index equals a planted index; fault kinds 0, 5, 6 raise themselves (Boom, KeyError, an error
    class with its own __str__), kinds 1-4 evaluate a failing sub-spec (missing key / Match reject / Check fail / unbound
    scope variable) so that the innermost failing spec is that sub-spec"""
    def __init__(self, tag):
        self.tag = tag

    def glomit(self, target, scope):
        i = COUNTER[0]
        COUNTER[0] += 1
        RECEIVED[self.tag] = target
        if i == PLANT[0] or i == PLANT[1]:
            FAILED.append(self.tag)
            if FAULT[0] == 0:
                raise Boom('planted at %s' % self.tag)
            if FAULT[0] == 5:
                raise KeyError('planted at %s' % self.tag)
            if FAULT[0] == 6:
                raise StrBoom('planted at %s' % self.tag)
            if FAULT[0] == 7:
                raise Boom(MULTILINE % self.tag)
            return scope[gc.glom](target, FAIL_SPECS[FAULT[0]], scope)
        return target

    def __repr__(self):
        return '<leaf%s>' % self.tag


LEAF = 9
KINDS = ['dict', 'list', 'tuple', 'pipe', 'spec', 'auto', 'coalesce', 'or', 'switch']
UNARY = (1, 4, 5)


class Ctx:
    def __init__(self):
        self.n = 0
        self.parent = {}
        self.spec_of = {}


def mk(sh, ctx, parent):
    if sh == LEAF:
        tag = ctx.n
        ctx.n += 1
        lf = Leaf(tag)
        ctx.parent[('leaf', tag)] = parent
        ctx.spec_of[('leaf', tag)] = lf
        return lf
    k = sh[0]
    node = ('node', len(ctx.spec_of))
    ctx.parent[node] = parent
    ctx.spec_of[node] = None
    kids = [mk(c, ctx, node) for c in sh[1:]]
    if k == 0:
        sp = {'k0': kids[0], 'k1': kids[1]}
    elif k == 1:
        sp = [kids[0]]
    elif k == 2:
        sp = tuple(kids)
    elif k == 3:
        sp = Pipe(*kids)
    elif k == 4:
        sp = Spec(kids[0])
    elif k == 5:
        sp = Auto(kids[0])
    elif k == 6:
        sp = Coalesce(*kids, skip_exc=(Boom, GlomError))
    elif k == 7:
        sp = Or(*kids)
    else:
        sp = Switch([(kids[0], kids[1])])
    ctx.spec_of[node] = sp
    return sp


def shape_of(root, c0, c1):
    def sub(c):
        if c == LEAF:
            return LEAF
        return (c, LEAF) if c in UNARY else (c, LEAF, LEAF)
    if root == LEAF:
        return LEAF
    return (root, sub(c0)) if root in UNARY else (root, sub(c0), sub(c1))


def has(sh, kinds):
    return sh != LEAF and (sh[0] in kinds or any(has(c, kinds) for c in sh[1:]))


def make_target(tkind, sh):
    payload = [7, 'x' * 200, 'héllo ✓ wörld'][tkind]
    if has(sh, (1,)):
        return [[[payload]]]
    return {'t': payload}


SPEC_LINE = re.compile(r'^ [|]*[-+|\\X ][\\X ]?Spec: ')
TGT_LINE = re.compile(r'^ [|]*[-+|\\X ][\\X ]?Target: ')


def parse(s):
    lines = s.splitlines()
    if len(lines) < 4 or lines[0] != 'error raised while processing, details below.' or lines[1] != ' Target-spec trace (most recent last):':
        return None
    return lines, lines[2:]


def _strip(l, word):
    return l[l.index(word + ': ') + len(word) + 2:]


def trace_shape(root: int, c0: int, c1: int, p: int, fault: int, tkind: int) -> bool:
    start()
    sh = shape_of(root, c0, c1)
    ctx = Ctx()
    spec = mk(sh, ctx, None)
    COUNTER[0] = 0
    PLANT[0], PLANT[1] = p, None
    FAULT[0] = fault
    RECEIVED.clear()
    del FAILED[:]
    target = make_target(tkind, sh)
    try:
        glom(target, spec)
        return True                      # planted leaf never reached (short-circuit) or error absorbed by a branch
    except (Boom, PathAccessError, MatchError) as e:
        err = e
        s = str(e)
    except CoalesceError:
        return True                      # every branch failed: branch family (trace_branches)
    except GlomError as e:
        err = e
        s = str(e)
    if len(FAILED) != 1:
        return True
    if fault in (1, 2, 3, 4):
        # a planted GlomError anywhere inside a Switch KEY spec means "this case does not match", not a failure of the
        # evaluation; what fails then is the Switch itself (no matches) -- the branch family, not this one
        child = ('leaf', FAILED[0])
        while ctx.parent[child] is not None:
            par = ctx.parent[child]
            if isinstance(ctx.spec_of[par], Switch) and ctx.spec_of[par].cases[0][0] is ctx.spec_of[child]:
                return True
            child = par
    reach('trace')
    parsed = parse(s)
    if parsed is None:
        return fail(why='header', s=s)
    lines, body = parsed
    w = TRACE_WIDTH
    if body[0] != ' - Target: ' + _format_trace_value(target, w - len(' - Target: ')):
        return fail(why='first line is not the (truncated) root target', line=body[0])
    if tkind == 1:
        reach('truncated')
        if len(body[0]) > w:
            return fail(why='root target line longer than the width', n=len(body[0]))
    # last line: format_exception_only of the original error
    orig = err.__dict__.get('_GlomError__wrapped', err)
    want_last = ''.join(traceback.format_exception_only(type(orig), orig))[:-1].splitlines()[-1]
    if 'str() failed' in s:
        return fail(why='the message of the original error could not be rendered', last=lines[-1])
    if fault == 7:
        want_end = 'Boom: ' + MULTILINE % FAILED[0]
        if not s.endswith(want_end):
            return fail(why='the trace must end with the type and the WHOLE message of the original error', tail=s[-160:], want=want_end)
    elif fault in (0, 5, 6):
        want_end = ['Boom: planted at %s' % FAILED[0], None, None, None, None, "KeyError: 'planted at %s'" % FAILED[0],
                    "StrBoom: custom text of ('planted at %s',)" % FAILED[0]][fault]
        if not (lines[-1].endswith(want_end)):
            return fail(why='last line must name the original error', last=lines[-1], want=want_end)
    else:
        cls = ['', 'PathAccessError', 'MatchError', 'CheckError', 'PathAccessError'][fault]
        if cls not in lines[-1]:
            return fail(why='last line must name the original error class', last=lines[-1], cls=cls)
        if fault == 4 and 'never_bound' not in lines[-1]:
            return fail(why='last line must carry the message of the original error', last=lines[-1])
    # ancestors in order as a subsequence of the Spec lines; last Spec line = innermost failing spec
    failing_tag = FAILED[0]
    chain = []
    cur = ('leaf', failing_tag)
    while cur is not None:
        chain.append(ctx.spec_of[cur])
        cur = ctx.parent[cur]
    chain.reverse()
    if fault in (1, 2, 3, 4):
        chain.append(FAIL_SPECS[fault])
    if fault == 2:
        chain.append('never-equal-to-this')       # in Match mode the literal inside Match(...) is the innermost failing spec
    texts = [_strip(l, 'Spec') for l in body if SPEC_LINE.match(l)]
    it = iter(texts)
    for a in chain:
        want = bbrepr(a)[:25]
        found = False
        for tline in it:
            if tline.startswith(want) or want.startswith(tline[:len(want)]):
                found = True
                break
        if not found:
            return fail(why='an ancestor spec is missing from the trace (or out of order)', want=want, texts=texts)
    innermost = bbrepr(chain[-1])
    if not texts or not (texts[-1].startswith(innermost[:25]) or innermost.startswith(texts[-1][:25])):
        return fail(why='last Spec line is not the failing spec', last=texts[-1] if texts else None, innermost=innermost)
    tgt_lines = [l for l in body if TGT_LINE.match(l)]
    last_t = _strip(tgt_lines[-1], 'Target')
    recv = _format_trace_value(RECEIVED[failing_tag], w)
    if not (last_t == recv or recv.startswith(last_t[:20])):
        return fail(why='last Target line is not what the failing spec received', last_t=last_t, recv=recv)
    return True


def trace_branches(root: int, c0: int, c1: int, p: int, q: int) -> bool:
    """two planted failures: a branch that was abandoned and forgiven must not appear; an open one must"""
    start()
    sh = shape_of(root, c0, c1)
    if not has(sh, (6,)) or not (p < q):
        return True
    ctx = Ctx()
    spec = mk(sh, ctx, None)
    COUNTER[0] = 0
    PLANT[0], PLANT[1] = p, q
    FAULT[0] = 0
    RECEIVED.clear()
    del FAILED[:]
    target = make_target(0, sh)
    try:
        glom(target, spec)
        return True
    except Boom as e:
        err, s = e, str(e)
    except GlomError as e:
        err, s = e, str(e)
    if len(FAILED) != 2:
        return True
    parsed = parse(s)
    if parsed is None:
        return fail(why='header', s=s)
    body = parsed[1]
    first, second = FAILED
    mentions_first = any(('<leaf%d>' % first) in l and 'Spec: <leaf' in l for l in body)
    # which Coalesce absorbed the first failure, and is the second failure inside it?
    cur = ctx.parent[('leaf', first)]
    absorbing = None
    while cur is not None:
        if isinstance(ctx.spec_of[cur], Coalesce):
            absorbing = cur
            break
        cur = ctx.parent[cur]
    cur2 = ('leaf', second)
    inside = False
    while cur2 is not None:
        if cur2 == absorbing:
            inside = True
        cur2 = ctx.parent[cur2]
    if isinstance(err, Boom):
        if inside:
            reach('open_branch')
            return mentions_first or fail(why='an attempted (still open) branch is missing from the trace', body=body)
        reach('recovered')
        return (not mentions_first) or fail(why='a forgiven branch leaked into the trace', body=body)
    # every branch failed -> CoalesceError: every attempted branch has its block and X line
    reach('all_failed')
    xs = [l for l in body if re.match(r'^ [|]*X ', l) or re.match(r'^ [|]+X', l)]
    if len(xs) < 2:
        return fail(why='each failed branch must end in an X line naming its error', body=body)
    return all('Boom' in l for l in xs[:2]) or fail(why='X lines must name the error class', xs=xs)


def branch_kinds(kind: int, n_fail: int) -> bool:
    """Coalesce / Or / Switch: every attempted branch and the error that ended it appear"""
    start()
    kind, n_fail = concretize(kind, 0, 7), concretize(n_fail, 2, 3)
    if kind is OUT or n_fail is OUT:
        return True
    if kind >= 5:
        # the KEY spec of a Switch case / Match-dict entry is itself branching and passes only after a failed alternative;
        # then the VALUE spec of that case raises: the abandoned alternative of the key must not show, the trace is linear
        spec, tgt = [(Switch([(Or('x', 'a'), T['nope'])]), {'a': 1}), (Switch([(Coalesce('x', 'y', 'a'), T['nope'])]), {'a': 1}),
                     (Match({Or('zz', 'yy', 'a'): Check(type=str)}), {'a': 1})][kind - 5]
        try:
            glom(tgt, spec)
            return fail(why='expected failure')
        except GlomError as e:
            s = str(e)
        parsed = parse(s)
        if parsed is None:
            return fail(why='header', s=s)
        body = parsed[1]
        reach('branch_kinds')
        leaked = [l for l in body if re.match(r'^ [|]', l) or "Spec: 'x'" in l or "Spec: 'zz'" in l or "Spec: 'y'" in l or "Spec: 'yy'" in l]
        texts = [_strip(l, 'Spec') for l in body if SPEC_LINE.match(l)]
        want_last = "T['nope']" if kind < 7 else 'Check(type=str)'
        return (not leaked and texts and texts[-1] == want_last) or fail(why='abandoned alternatives of the key spec leaked into the trace of the value spec', leaked=leaked, texts=texts)
    fails = [T['nope%d' % i] for i in range(3)]
    ok = Val('fine')
    kids = fails[:n_fail] + ([ok] if kind not in (3, 4) else [])
    if kind == 0:
        spec = (Coalesce(*kids), T['after'])
    elif kind == 1:
        spec = (Or(*kids), T['after'])
    elif kind == 2:
        spec = (Switch([(k, Val(1)) for k in kids]), T['after'])
    elif kind == 3:
        spec = Coalesce(*kids)           # all fail
    else:
        # the first branch raises, the remaining ones are rejected by VALUE (skip=): still every attempted branch and the
        # error that ended it must appear
        spec = Coalesce(T['nope0'], *[Val(1)] * (n_fail - 1), skip=1)
    try:
        glom({'t': 1}, spec)
        return fail(why='expected failure')
    except GlomError as e:
        s = str(e)
    parsed = parse(s)
    if parsed is None:
        return fail(why='header', s=s)
    body = parsed[1]
    reach('branch_kinds')
    if kind == 4:
        shown = any("T['nope0']" in l and 'Spec: ' in l and re.match(r'^ [|]', l) for l in body)
        named = any('PathAccessError' in l and re.match(r'^ [|]', l) for l in body)
        return (shown and named) or fail(why='the branch that raised (before value-skipped ones) must appear with its error', body=body)
    if kind == 3:
        xs = [l for l in body if 'X ' in l and 'PathAccessError' in l]
        return len(xs) == n_fail or fail(why='one X line per failed branch', xs=xs, n=n_fail, body=body)
    # the branches were recovered from (the last alternative passed) and the chain failed later: no branch may be listed
    leaked = [l for l in body if re.match(r'^ [|]', l)]          # branch blocks are indented with |
    return (not leaked and "T['after']" in body[-2] + body[-1] + s) or fail(why='forgiven branches leaked', leaked=leaked)


def equal_targets(kind: int, where: int) -> bool:
    """a level receives a target that is EQUAL to the one above but a different object with a different repr
    (1 -> 1.0, True -> 1, dict -> OrderedDict): the trace must show the target the failing spec actually received"""
    start()
    kind, where = concretize(kind, 0, 3), concretize(where, 0, 1)
    if kind is OUT or where is OUT:
        return True
    from collections import OrderedDict
    conv, t0, shown = [(float, 1, '1.0'), (int, True, '1'), (OrderedDict, {'a': 1}, "OrderedDict({'a': 1})"),
                       ((lambda t: t + 0.0), 2, '2.0')][kind]
    failing = T['nope'] if kind != 2 else T['zz']
    spec = (conv, failing) if where == 0 else Coalesce((conv, failing), (conv, failing))
    try:
        glom(t0, spec)
        return fail(why='expected failure')
    except GlomError as e:
        s = str(e)
    parsed = parse(s)
    if parsed is None:
        return fail(why='header', s=s)
    body = parsed[1]
    reach('equal_targets')
    # the last Target line above the failing spec is the converted value
    idx = max(i for i, l in enumerate(body) if 'Spec: ' in l and ('nope' in l or "T['zz']" in l))
    tgts = [l for l in body[:idx] if 'Target: ' in l]
    last = _strip(tgts[-1], 'Target') if tgts else None
    return last == shown or fail(why='the failing spec must be shown with the target it actually received', last=last, shown=shown, body=body)


def recovered_outer(inner: int, rec: int, outer: int) -> bool:
    """a branching spec recovers (later branch / default= / default_factory=) and then the ENCLOSING spec itself fails with no
    further child evaluated: the trace must end at the spec that really raised and never mention the forgiven branch"""
    start()
    inner, rec, outer = concretize(inner, 0, 2), concretize(rec, 0, 3), concretize(outer, 0, 2)
    if inner is OUT or rec is OUT or outer is OUT:
        return True
    from glom import And
    bad = T['forgiven_branch']
    if inner == 0:
        kids, kw = [bad], {}
        if rec == 0:
            kids.append(Val('recovered'))
        elif rec == 1:
            kw['default'] = 'recovered'
        elif rec == 2:
            kw['default_factory'] = (lambda: 'recovered')
        else:
            kw['default'] = T['t']
        b = Coalesce(*kids, **kw)
    elif inner == 1:
        if rec == 2:
            return True
        b = Or(bad, Val('recovered')) if rec == 0 else Or(bad, default=('recovered' if rec == 1 else T['t']))
    else:
        if rec == 2:
            return True
        b = Switch([(bad, Val(0)), (Val(1), Val('recovered'))]) if rec == 0 else Switch([(bad, Val(0))], default=('recovered' if rec == 1 else T['t']))
    if outer == 0:
        spec = Check(b, type=dict)                       # the Check itself rejects the recovered value
    elif outer == 1:
        spec = Coalesce(b, skip=lambda v: True)          # recovered value skipped, nothing left: CoalesceError of the OUTER spec
    else:
        spec = Match(And(b, M == 'something else')) if False else Check(b, equal_to='something else')
    try:
        glom({'t': 1}, spec)
        return fail(why='expected the enclosing spec to fail')
    except GlomError as e:
        s = str(e)
    parsed = parse(s)
    if parsed is None:
        return fail(why='header', s=s)
    body = parsed[1]
    reach('recovered_outer')
    leaked = [l for l in body if 'forgiven_branch' in l and ('Spec: T[' in l or 'PathAccessError' in l) and 'Spec: C' not in l and 'Spec: O' not in l and 'Spec: S' not in l]
    return (not leaked) or fail(why='the forgiven branch appears in the trace of a later failure', leaked=leaked, body=body)


STORED = []


def _inner_then_render(t):
    try:
        return glom(t, 'zz')
    except GlomError as e:
        str(e)                       # e.g. logged by the callable
        raise


def _inner_plain(t):
    return glom(t, 'zz')


def _raise_stored(t):
    raise STORED[0]


def rendered_before(how: int, depth: int, wrap: int) -> bool:
    """the error raised inside the spec is an object that has been rendered (str) before -- by the callable that caught and
    re-raised the error of a nested glom() call, or in an earlier glom() call: the message of THIS call's error must still
    begin with this call's root target and list this call's specs down to the one that raised"""
    start()
    how, depth, wrap = concretize(how, 0, 3), concretize(depth, 0, 2), concretize(wrap, 0, 2)
    if how is OUT or depth is OUT or wrap is OUT:
        return True
    del STORED[:]
    if how in (2, 3):
        try:
            glom({'earlier': 1}, 'nope')
        except GlomError as e:
            STORED.append(e)
            if how == 3:
                str(e)
    fn = [_inner_then_render, _inner_plain, _raise_stored, _raise_stored][how]
    inner = [fn, Coalesce('absent', fn), Or(fn)][wrap]
    spec, target = inner, {'b': 1}
    for i in range(depth):
        spec = ('k%d' % i, spec) if i % 2 == 0 else {'out': Pipe('k%d' % i, spec)}
        target = {'k%d' % i: target}
    # nest from the outside in: the outermost key is the last one added
    try:
        glom(target, spec)
        return fail(why='expected failure')
    except GlomError as e:
        s = str(e)
    parsed = parse(s)
    if parsed is None:
        return fail(why='header', s=s)
    body = parsed[1]
    reach('rendered_before')
    if body[0] != ' - Target: ' + _format_trace_value(target, TRACE_WIDTH - len(' - Target: ')):
        return fail(why="the trace must begin with this call's root target", line=body[0], s=s)
    texts = [_strip(l, 'Spec') for l in body if SPEC_LINE.match(l)]
    if not texts or not texts[0].startswith(bbrepr(spec)[:25]):
        return fail(why="the first Spec line must be this call's root spec", texts=texts)
    name = '<function %s ' % fn.__name__
    if not any(t.startswith(name) for t in texts):
        return fail(why='the spec that raised (the callable) must be listed', texts=texts)
    return ('PathAccessError' in s.splitlines()[-1]) or fail(why='last line names the original error', last=s.splitlines()[-1])


class R:
    """object with a repr of a given length and a (possibly failing) len()"""
    def __init__(self, n, ln):
        self.n, self.ln = n, ln

    def __repr__(self):
        return '<' + 'r' * (self.n - 2) + '>' if self.n >= 2 else 'r' * self.n

    def __len__(self):
        if self.ln == -1:
            raise TypeError('no len')
        if self.ln == -2:
            raise OverflowError('cannot fit')
        if self.ln == -3:
            raise RuntimeError('lazy collection')
        return self.ln


def truncate(nk: int, maxlen: int, lk: int) -> bool:
    start()
    n = [1, 5, 13, 14, 15, 40, 119, 120, 121][nk]
    ln = [-1, 0, 3, 12, 1000, -2, -3][lk]
    maxlen = concretize(maxlen, 14, 121)
    if maxlen is OUT:
        return True
    v = R(n, ln)
    s = _format_trace_value(v, maxlen)
    full = repr(v)
    if len(full) <= maxlen:
        reach('fits')
        return s == full or fail(why='a value that fits must be shown in full', s=s)
    reach('cut')
    suffix = '... (len=%s)' % ln if ln >= 0 else '...'       # any failure of len() falls back to the bare ellipsis
    ok = len(s) == maxlen and s.endswith(suffix) and full.startswith(s[:maxlen - len(suffix)])
    return ok or fail(why='truncated value', s=s, maxlen=maxlen, full=full)


def width(wd: int, depth: int, tkind: int) -> bool:
    """format_target_spec_trace(width=w): every Target/Spec line fits the width"""
    start()
    spec = T['missing']
    for i in range(depth):
        spec = {'k%d' % i: spec} if i % 2 == 0 else (T, spec)
    target = {'t': [7, 'x' * 200, 'héllo ✓'][tkind]}
    try:
        glom(target, spec)
        return fail(why='expected failure')
    except GlomError as e:
        txt = format_target_spec_trace(e._scope, e.__dict__.get('_GlomError__wrapped'), width=wd)
    reach('width')
    lines = txt.splitlines()
    for l in lines:
        if ('Target: ' in l or 'Spec: ' in l) and len(l) > wd:
            return fail(why='line longer than the requested width', l=l, wd=wd)
    spec_lines = [l for l in lines if 'Spec: ' in l]
    return len(spec_lines) >= depth + 1 or fail(why='at least one Spec line per nesting level', n=len(spec_lines), depth=depth)


def obligations(tier):
    q = tier == 'quick'
    obs = []
    kinds_q = [LEAF, 0, 2, 6, 1]
    kinds = kinds_q if q else list(range(9)) + [LEAF]
    ck = '(' + ' or '.join('{v} == %d' % k for k in kinds) + ')'
    for root in range(9):
        for fault in range(8):
            if q and fault != (root % 8) and fault != 0 and fault != ((root + 3) % 8):
                continue
            fx = {'root': root, 'fault': fault, 'tkind': (root + fault) % 3}
            # thorough: every kind of first child, the quick tier's kinds for the second one (about 250 paths per obligation,
            # each of which renders a real traceback)
            ckq = '(' + ' or '.join('{v} == %d' % k for k in kinds_q) + ')'
            pre = ck.format(v='c0') + ' and ' + ckq.format(v='c1') + ' and 0 <= p <= 4'
            if root in UNARY:
                fx['c1'] = LEAF
                pre = ck.format(v='c0') + ' and 0 <= p <= 4'
            obs.append(Ob(trace_shape, fixed=fx, pre=pre, name='trace_shape_%s_f%d' % (KINDS[root], fault), timeout=300 if q else 1200, path_timeout=60))
    for root in ([6, 2, 0] if q else range(9)):
        for c0 in ([6, LEAF] if q else kinds_q):
            fx = {'root': root, 'c0': c0}
            pre = ck.format(v='c1') + ' and 0 <= p <= 3 and 0 <= q <= 4'
            if root in UNARY:
                fx['c1'] = LEAF
                pre = '0 <= p <= 3 and 0 <= q <= 4'
            obs.append(Ob(trace_branches, fixed=fx, pre=pre, name='trace_branches_%s_%s' % (KINDS[root], 'leaf' if c0 == LEAF else KINDS[c0]),
                          timeout=300 if q else 1200, path_timeout=60))
    obs.append(Ob(branch_kinds, pre='0 <= kind <= 7 and 2 <= n_fail <= 3', name='branch_kinds', timeout=200))
    obs.append(Ob(equal_targets, pre='0 <= kind <= 3 and 0 <= where <= 1', name='equal_targets', timeout=200))
    obs.append(Ob(recovered_outer, pre='0 <= inner <= 2 and 0 <= rec <= 3 and 0 <= outer <= 2', name='recovered_outer', timeout=300))
    obs.append(Ob(rendered_before, pre='0 <= how <= 3 and 0 <= depth <= 2 and 0 <= wrap <= 2', name='rendered_before', timeout=300))
    obs.append(Ob(rendered_before, pre='0 <= how <= 3 and 0 <= depth <= 2 and 0 <= wrap <= 2', twin='rendered_before', name='rendered_before'))
    for nk in range(9):
        obs.append(Ob(truncate, fixed={'nk': nk}, pre='14 <= maxlen <= 121 and 0 <= lk <= 6', name='truncate_n%d' % nk, timeout=300))
    for depth in range(1, 4 if q else 5):
        obs.append(Ob(width, fixed={'depth': depth}, pre='50 <= wd <= 120 and 0 <= tkind <= 2', name='width_d%d' % depth, timeout=300))
    fx = {'root': 2, 'fault': 0, 'tkind': 1}
    tp = ck.format(v='c0') + ' and ' + ck.format(v='c1') + ' and 0 <= p <= 4'
    obs.append(Ob(trace_shape, fixed=fx, pre=tp, twin='trace', name='trace_shape_tuple'))
    obs.append(Ob(trace_shape, fixed=fx, pre=tp, twin='truncated', name='trace_shape_tuple'))
    obs.append(Ob(trace_branches, fixed={'root': 2, 'c0': 6}, pre=ck.format(v='c1') + ' and 0 <= p <= 3 and 0 <= q <= 4', twin='recovered', name='trace_branches_tc'))
    obs.append(Ob(trace_branches, fixed={'root': 6, 'c0': LEAF}, pre=ck.format(v='c1') + ' and 0 <= p <= 3 and 0 <= q <= 4', twin='all_failed', name='trace_branches_cl'))
    obs.append(Ob(truncate, fixed={'nk': 5}, pre='14 <= maxlen <= 121 and 0 <= lk <= 6', twin='cut', name='truncate'))
    return obs
