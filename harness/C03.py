"""C03 -- Auto-mode restructuring is compositional in its sub-specs."""
from collections import OrderedDict
from typing import List

from glom import (glom, T, S, Path, Coalesce, SKIP, STOP, Val, Spec, Pipe, Call, Invoke, Ref, GlomError, CoalesceError,
                  PathAccessError, UnregisteredTarget)

from vkit.common import start, reach, fail, known_open, concretize, OUT, run
from vkit.ob import Ob
import vkit.stubs  # noqa: F401

META = {
    'explanation': 'The property is inductive ("determined only by the outputs of its sub-specs"), so it is decided one step '
                   'at a time: every node kind (tuple, Pipe, dict/OrderedDict/dict subclass/computed key, list, Spec, eight '
                   'Coalesce variants, Call, Invoke) is evaluated by the real glom over ORACLE children whose outcome is a '
                   'decision variable (symbolic value, SKIP, STOP, GlomError, non-glom error) and compared with the documented '
                   'combination rule -- value, container type, key order, exception class and the full call log (which child, '
                   'with which target, in which order, exactly once, none after a winner/STOP/error). Every ordered pair of '
                   'node kinds is then nested at every child position, real leaf specs are run through every node kind, and '
                   'the chain law glom(t,(a,b)) == glom(glom(t,a),b) is checked over a pool of real specs.',
    'bounds': {
        'quick': {'children per node': 3, 'outcome kinds per child': 5, 'nesting': 'every pair (outer, inner) at every position, '
                  'depth-3 chains in thorough', 'values and targets': 'unbounded symbolic ints', 'list targets': 'length <= 3'},
        'thorough': {'nesting': 'pairs with 5 outcome kinds for the inner children; depth-3 chains'},
    },
    'stubs': ['S3 glom_debug=True', 'S4 state reset'],
    'outside_claim': ['specs deeper than 3', 'user spec types', 'STOP as a dict value / SKIP as a call argument (not fixed by the '
                      'statement)', 'scope bindings and modes flowing around sub-results (C07, C08)'],
    'assumptions': [],
}


class UserErr(Exception):
    pass


VALUE, SKIPK, STOPK, PAEK, USERK = range(5)


def leaf(kind, val, tag, glog, rlog):
    """oracle child: (spec, reference fn).  Both log (tag, target)."""
    def outcome(t, log):
        log.append((tag, t))
        if kind == VALUE:
            return val
        if kind == SKIPK:
            return SKIP
        if kind == STOPK:
            return STOP
        if kind == PAEK:
            raise PathAccessError(KeyError('oracle'), Path('oracle'), 0)
        raise UserErr(tag)

    def spec(t):
        return outcome(t, glog)

    def ref(t):
        return outcome(t, rlog)
    return spec, ref


class MyDict(dict):
    __slots__ = ()


DFLT = 'DEFAULT'
NKIND = 18
KIND_NAMES = ['tuple', 'pipe', 'dict', 'odict', 'dictsub', 'dict_speckey', 'list', 'spec', 'coalesce', 'coalesce_default',
              'coalesce_factory', 'coalesce_skip0', 'coalesce_skiptuple', 'coalesce_skipfn', 'coalesce_skipexc',
              'coalesce_skipexc_tuple', 'call', 'invoke']
ARITY = [3, 3, 3, 3, 2, 2, 1, 1, 3, 2, 2, 2, 2, 2, 2, 2, 2, 3]


def _chain(refs, t):
    res = t
    for r in refs:
        n = r(res)
        if n is SKIP:
            continue
        if n is STOP:
            break
        res = n
    return res


def _dict(refs, keys, t, typ):
    out = typ()
    for k, r in zip(keys, refs):
        v = r(t)
        if v is SKIP:
            continue
        out[k] = v
    return out


def _coalesce(refs, t, skip_exc, skipf, on_fail):
    for r in refs:
        try:
            v = r(t)
        except skip_exc:
            continue
        if skipf(v):
            continue
        return v
    return on_fail()


def _raise_coalesce():
    raise CoalesceError(None, [], None)


def rec(*a, **kw):
    return ('called', a, tuple(sorted(kw.items())))


def node(kind, kids, extra):
    """kids: list of (spec, ref); returns (spec, ref).  extra: dict with 'factory' counter list, 'pred' threshold"""
    specs = [k[0] for k in kids]
    refs = [k[1] for k in kids]
    if kind == 0:
        return tuple(specs), (lambda t: _chain(refs, t))
    if kind == 1:
        return Pipe(*specs), (lambda t: _chain(refs, t))
    if kind == 2:
        keys = ['p', 'q', 'r'][:len(specs)]
        return dict(zip(keys, specs)), (lambda t: _dict(refs, keys, t, dict))
    if kind == 3:
        keys = ['z', 'a', 'm'][:len(specs)]
        return OrderedDict(zip(keys, specs)), (lambda t: _dict(refs, keys, t, OrderedDict))
    if kind == 4:
        return MyDict([('p', specs[0]), ('q', specs[1])]), (lambda t: _dict(refs, ['p', 'q'], t, MyDict))
    if kind == 5:
        return {Spec(Val('dyn')): specs[0], 'q': specs[1]}, (lambda t: _dict(refs, ['dyn', 'q'], t, dict))
    if kind == 6:
        def ref_list(t):
            if not isinstance(t, (list, tuple)):
                raise UnregisteredTarget('iterate', type(t), {}, None)
            out = []
            for item in t:
                v = refs[0](item)
                if v is SKIP:
                    continue
                if v is STOP:
                    break
                out.append(v)
            return out
        return [specs[0]], ref_list
    if kind == 7:
        return Spec(specs[0]), (lambda t: refs[0](t))
    if kind == 8:
        return Coalesce(*specs), (lambda t: _coalesce(refs, t, GlomError, lambda v: False, _raise_coalesce))
    if kind == 9:
        return Coalesce(*specs, default=DFLT), (lambda t: _coalesce(refs, t, GlomError, lambda v: False, lambda: DFLT))
    if kind == 10:
        calls = extra['factory']

        def fac():
            calls.append('g')
            return 'FACTORY'

        def rfac():
            calls.append('r')
            return 'FACTORY'
        return (Coalesce(*specs, default_factory=fac),
                (lambda t: _coalesce(refs, t, GlomError, lambda v: False, rfac)))
    if kind == 11:
        return (Coalesce(*specs, skip=0, default=-1),
                (lambda t: _coalesce(refs, t, GlomError, lambda v: v == 0, lambda: -1)))
    if kind == 12:
        return (Coalesce(*specs, skip=(0, 1), default=-1),
                (lambda t: _coalesce(refs, t, GlomError, lambda v: v in (0, 1), lambda: -1)))
    if kind == 13:
        thr = extra['thr']
        pred = lambda v: (v is not SKIP and v is not STOP) and v > thr
        return (Coalesce(*specs, skip=pred, default=-1),
                (lambda t: _coalesce(refs, t, GlomError, pred, lambda: -1)))
    if kind == 14:
        return (Coalesce(*specs, skip_exc=UserErr, default=DFLT),
                (lambda t: _coalesce(refs, t, UserErr, lambda v: False, lambda: DFLT)))
    if kind == 15:
        return (Coalesce(*specs, skip_exc=(UserErr, KeyError)),
                (lambda t: _coalesce(refs, t, (UserErr, KeyError), lambda v: False, _raise_coalesce)))
    if kind == 16:
        return (Call(rec, args=(Spec(specs[0]), T, 5), kwargs={'k': Spec(specs[1]), 'lit': 'a'}),
                (lambda t: (lambda a0: rec(a0, t, 5, k=refs[1](t), lit='a'))(refs[0](t))))
    return (Invoke(rec).specs(specs[0], k=specs[1]).constants(7, z=8).specs(specs[2]),
            (lambda t: (lambda a0, k1: rec(a0, 7, refs[2](t), k=k1, z=8))(refs[0](t), refs[1](t))))


def _same_value(g, e):
    if e is SKIP or e is STOP:
        return g is e
    if isinstance(e, dict):
        return type(g) is type(e) and list(g.keys()) == list(e.keys()) and all(_same_value(g[k], e[k]) for k in e)
    if isinstance(e, (list, tuple)):
        return type(g) is type(e) and len(g) == len(e) and all(_same_value(a, b) for a, b in zip(g, e))
    return g == e


def _compare(spec, ref, tgt, glog, rlog, **ctx):
    got = run(lambda: glom(tgt, spec, glom_debug=True))
    exp = run(lambda: ref(tgt))
    if got.kind != exp.kind:
        return fail(why='outcome kind', got=got, exp=exp, glog=glog, rlog=rlog, **ctx)
    if glog != rlog:
        return fail(why='call log: which child, with which target, in which order, once', glog=glog, rlog=rlog, **ctx)
    if got.kind == 'err':
        reach('node_err')
        return type(got.exc) is type(exp.exc) or fail(why='error class', got=got, exp=exp, **ctx)
    reach('node_ok')
    return _same_value(got.value, exp.value) or fail(why='value', got=got.value, exp=exp.value, **ctx)


def _allowed(kind, outcomes):
    """outcome kinds the statement fixes for this node kind"""
    if kind in (2, 3, 4, 5):
        return all(o != STOPK for o in outcomes)          # STOP as a dict value: not fixed by the statement
    if kind in (16, 17):
        return all(o not in (SKIPK, STOPK) for o in outcomes)
    return True


VARIADIC = (0, 1, 2, 3, 8, 9, 11)       # kinds that accept any number of children


def node_step(kind: int, k0: int, k1: int, k2: int, x: int, v0: int, v1: int, v2: int, thr: int, n: int) -> bool:
    start()
    if n < 0 or n > ARITY[kind]:
        return True
    outs = [k0, k1, k2][:n]
    if not _allowed(kind, outs):
        return True
    glog, rlog = [], []
    kids = [leaf(k, v, i, glog, rlog) for i, (k, v) in enumerate(zip(outs, [v0, v1, v2]))]
    extra = {'factory': [], 'thr': thr}
    spec, ref = node(kind, kids, extra)
    tgt = [x, x + 1, x - 1] if kind == 6 else x
    ok = _compare(spec, ref, tgt, glog, rlog, kind=kind, outs=outs)
    if ok:
        # the SAME spec object again, on another target: nothing may be remembered from the first evaluation
        del glog[:]
        del rlog[:]
        n_before = len(extra['factory'])
        tgt2 = [x + 7] if kind == 6 else x + 7
        ok = _compare(spec, ref, tgt2, glog, rlog, kind=kind, outs=outs, second=True)
        del extra['factory'][n_before:]
    if ok and kind == 10 and extra['factory'] not in ([], ['g', 'r']):
        return fail(why='default_factory call count', calls=extra['factory'])
    return ok


def pair_nesting(outer: int, inner: int, pos: int, i0: int, i1: int, i2: int, o1: int, x: int, v0: int, v1: int, v2: int,
                 w: int, thr: int) -> bool:
    """inner node (children outcomes i0..i2) at child position `pos` of the outer node; the outer's other children are
    oracle leaves (outcome o1 for the first of them, plain values for the rest)"""
    start()
    na, nb = ARITY[outer], ARITY[inner]
    if pos >= na:
        return True
    inner_outs = [i0, i1, i2][:nb]
    if not _allowed(inner, inner_outs) or not _allowed(outer, [o1]):
        return True
    if inner == 6 and outer != 6:
        return True          # a list node needs an iterable target; covered when nested under a list node
    glog, rlog = [], []
    ikids = [leaf(k, v, ('i', i), glog, rlog) for i, (k, v) in enumerate(zip(inner_outs, [v0, v1, v2]))]
    extra = {'factory': [], 'thr': thr}
    ispec, iref = node(inner, ikids, extra)
    okids = []
    other = 0
    for p in range(na):
        if p == pos:
            okids.append((ispec, iref))
        else:
            okids.append(leaf(o1 if other == 0 else VALUE, w + p, ('o', p), glog, rlog))
            other += 1
    ospec, oref = node(outer, okids, {'factory': [], 'thr': thr})
    tgt = [x, x + 1] if outer == 6 else x
    reach('pair')
    return _compare(ospec, oref, tgt, glog, rlog, outer=outer, inner=inner, pos=pos)


def chain3(k_a: int, k_b: int, k_c: int, o0: int, o1: int, x: int, v0: int, v1: int) -> bool:
    """depth-3 chains: node a over node b over node c (first child position), oracle leaves elsewhere"""
    start()
    if 6 in (k_b, k_c) or not _allowed(k_c, [o0, o1]) or not _allowed(k_b, [o1]) or not _allowed(k_a, [o1]):
        return True
    glog, rlog = [], []

    def fill(kind, first, tagbase, outs):
        kids = [first] if first else []
        while len(kids) < ARITY[kind]:
            i = len(kids)
            kids.append(leaf(outs[i % len(outs)] if not first or i > 0 else VALUE, v0 + i, (tagbase, i), glog, rlog))
        return node(kind, kids, {'factory': [], 'thr': 0})
    c = fill(k_c, None, 'c', [o0, o1, VALUE])
    b = fill(k_b, c, 'b', [VALUE, o1, VALUE])
    a = fill(k_a, b, 'a', [VALUE, VALUE, o1])
    tgt = [x, x + 1] if k_a == 6 else x
    reach('chain3')
    return _compare(a[0], a[1], tgt, glog, rlog, kinds=(k_a, k_b, k_c))


# ---- real leaves and the chain law -------------------------------------------------------------------
NREAL = 8


def real_spec(k, a):
    """(spec, reference) over targets of the form {'a': {'b': int, 'xs': [ints]}, 'n': int}"""
    if k == 0:
        return 'a.b', (lambda t: t['a']['b'])
    if k == 1:
        return T['a']['xs'], (lambda t: t['a']['xs'])
    if k == 2:
        return Val(a), (lambda t: a)
    if k == 3:
        return ('a.xs', len), (lambda t: len(t['a']['xs']))
    if k == 4:
        return {'u': 'n', 'v': ('a.b', lambda v: v + a)}, (lambda t: {'u': t['n'], 'v': t['a']['b'] + a})
    if k == 5:
        return ('a.xs', [T * 2]), (lambda t: [v * 2 for v in t['a']['xs']])
    if k == 6:
        return Coalesce('a.zz', 'n'), (lambda t: t['n'])
    return 'a.missing', None      # always fails with PathAccessError


def real_leaves(kind: int, r0: int, r1: int, r2: int, b: int, n: int, xs: List[int], a: int) -> bool:
    """node kinds over real leaf specs on a type-directed target"""
    start()
    if kind in (6,):
        return True
    t = {'a': {'b': b, 'xs': xs}, 'n': n}
    glog, rlog = [], []
    kids = []
    for r in [r0, r1, r2][:ARITY[kind]]:
        sp, rf = real_spec(r, a)
        if rf is None:
            def rf(tt):
                raise PathAccessError(KeyError('missing'), Path('a', 'missing'), 1)
        kids.append((sp, rf))
    if kind in (0, 1):
        # a chain feeds results forward: later steps must accept the earlier result; use the first child only + len-safe steps
        kids = [kids[0], (lambda v: (v, 1), lambda v: (v, 1)), (T[0], lambda v: v[0])]
    spec, ref = node(kind, kids, {'factory': [], 'thr': a})
    reach('real')
    return _compare(spec, ref, t, glog, rlog, kind=kind)


def chain_law(ka: int, kb: int, which: int, b: int, n: int, xs: List[int], a: int) -> bool:
    """glom(t, (a, b)) == glom(glom(t, a), b), also for Pipe"""
    start()
    t = {'a': {'b': b, 'xs': xs, 'a': {'b': n, 'xs': xs}}, 'n': n, 'b': b, 'xs': xs}
    firsts = ['a', T['a'], {'a': 'a', 'n': 'b'}, ('a', 'a'), Coalesce('zz', 'a'), Spec('a')]
    sa = firsts[ka] if 0 <= ka < len(firsts) else 'a'
    sb, _ = real_spec(kb, a)
    whole = (sa, sb) if which == 0 else Pipe(sa, sb)
    got = run(lambda: glom(t, whole, glom_debug=True))

    def two():
        return glom(glom(t, sa, glom_debug=True), sb, glom_debug=True)
    exp = run(two)
    reach('law')
    if got.kind != exp.kind:
        return fail(why='outcome kind', got=got, exp=exp)
    if got.kind == 'err':
        return type(got.exc) is type(exp.exc) or fail(got=got, exp=exp)
    return _same_value(got.value, exp.value) or fail(got=got.value, exp=exp.value)


def ref_recursion(depth: int, a: int, b: int, shadow: bool) -> bool:
    """Ref(name, spec) / Ref(name): recursion over nested lists; nearest enclosing definition wins"""
    start()
    t = a
    for d in range(depth):
        t = [t, [b]] if d == 0 else [t]

    def ref(x):
        return [ref(i) for i in x] if isinstance(x, list) else x + 1
    spec = Ref('r', Coalesce([Ref('r')], T + 1))
    got = glom(t, spec, glom_debug=True)
    if got != ref(t):
        return fail(why='recursion', got=got, exp=ref(t))
    if shadow:
        # inner Ref('r', ...) shadows the outer one for its own subtree only
        inner = Ref('r', (T, lambda v: ('inner', v)))
        spec2 = Ref('r', {'out': (Val(a), Ref('r2', T)), 'in': (Val(b), inner)})
        g2 = glom(0, spec2, glom_debug=True)
        if g2 != {'out': a, 'in': ('inner', b)}:
            return fail(why='shadowing', g2=g2)
        # two definitions of the SAME name, one nested in the other; the bare Ref('r') that belongs to the outer one is
        # evaluated AFTER the inner definition has run: it still means the outer body (data-driven recursion, depth 2)
        inner2 = Ref('r', lambda v: ('inner', v))
        outer2 = Ref('r', {'tag': Val('outer'), 'in': (T['i'], inner2),
                           'after': Coalesce((T['next'], Ref('r')), default=None)})
        g3 = glom({'i': a, 'next': {'i': b}}, outer2, glom_debug=True)
        e3 = {'tag': 'outer', 'in': ('inner', a), 'after': {'tag': 'outer', 'in': ('inner', b), 'after': None}}
        if g3 != e3:
            return fail(why='an inner definition of the same name leaked out of its own subtree', g3=g3, e3=e3)
    reach('ref')
    return True


class PullCount:
    """one-shot source: counts what was pulled and refuses to be pulled past `limit`"""
    def __init__(self, items, limit):
        self.it, self.pulled, self.limit = iter(items), 0, limit

    def __iter__(self):
        return self

    def __next__(self):
        if self.pulled >= self.limit:
            raise RuntimeError('the source was pulled past the element that ended the list')
        v = next(self.it)              # the natural end (StopIteration) is not a pull
        self.pulled += 1
        return v


def list_stop_lazy(xs: List[int], s: int, form: int) -> bool:
    """a list spec over a one-shot / lazy target: STOP ends the list AT that element -- nothing behind it is pulled"""
    from glom import STOP, SKIP
    start()
    form = concretize(form, 0, 2)
    if form is OUT:
        return True
    stop_at = None
    for i, x in enumerate(xs):
        if x == s and stop_at is None:
            stop_at = i
    exp = [x + 1 for x in (xs if stop_at is None else xs[:stop_at])]
    src = PullCount(xs, len(xs) + 1 if stop_at is None else stop_at + 1)
    sub = lambda v: STOP if v == s else v + 1
    spec = [[sub], ('it', [sub]), {'out': [sub]}][form]
    tgt = [src, {'it': src}, src][form]
    got = run(lambda: glom(tgt, spec, glom_debug=True))
    reach('list_stop_lazy')
    if stop_at is not None and stop_at < len(xs) - 1:
        reach('stopped_early')
    if got.kind != 'ok':
        return fail(why='the list spec kept pulling after STOP', got=got, xs=xs, s=s)
    val = got.value['out'] if form == 2 else got.value
    return (val == exp and src.pulled == (len(xs) if stop_at is None else stop_at + 1)) or fail(why='value / pulls', val=val, exp=exp, pulled=src.pulled)


def callable_leaf(x: int, which: int) -> bool:
    """callables receive the current target; Val/Spec/Invoke/Call combine their parts as documented"""
    start()
    seen = []

    def f(t):
        seen.append(t)
        return t + 1
    if which == 0:
        got, exp = glom(x, (f, f), glom_debug=True), x + 2
        ok = seen == [x, x + 1]
    elif which == 1:
        got, exp = glom(x, {'k': f, 'v': Val(f)}, glom_debug=True), {'k': x + 1, 'v': f}
        ok = seen == [x]
    elif which == 2:
        got, exp = glom({'f': f, 'x': x}, Invoke(T['f']).specs('x') if False else Invoke(f).specs('x'), glom_debug=True), x + 1
        ok = seen == [x]
    elif which == 3:
        got, exp = glom(x, Call(f, args=(T,)), glom_debug=True), x + 1
        ok = seen == [x]
    elif which == 4:
        got, exp = glom({'x': x}, Invoke(max).specs('x').constants(3), glom_debug=True), max(x, 3)
        ok = True
    elif which == 5:
        got, exp = glom([x, x + 5], Invoke(rec).star(args=T, kwargs=Val({'k': 1})), glom_debug=True), rec(x, x + 5, k=1)
        ok = True
    else:
        got, exp = glom(x, Invoke(rec).constants(k=1).specs(k=T), glom_debug=True), rec(k=x)   # later kwarg overrides
        ok = True
    reach('callable')
    return (ok and got == exp) or fail(got=got, exp=exp, seen=seen)


def obligations(tier):
    q = tier == 'quick'
    obs = []
    for kind in range(NKIND):
        arities = [ARITY[kind]]
        if kind in VARIADIC:
            lo = 0 if kind in (0, 1, 2, 3) else 1
            arities = list(range(lo, ARITY[kind] + 1))
        for n in arities:
            fx = {'kind': kind, 'n': n}
            for k in ['k0', 'k1', 'k2'][n:]:
                fx[k] = 0
            pre = ' and '.join('0 <= %s <= 4' % k for k in ['k0', 'k1', 'k2'][:n]) or 'True'
            nm = 'node_step_%s' % KIND_NAMES[kind] + ('' if n == ARITY[kind] else '_n%d' % n)
            obs.append(Ob(node_step, fixed=fx, pre=pre, name=nm, timeout=120))
    inner_pre_q = '0 <= i0 <= 3 and 0 <= i1 <= 3 and 0 <= i2 <= 3 and i0 != 2 and i1 != 2 and (o1 == 0 or o1 == 1 or o1 == 3)'
    inner_pre_t = '0 <= i0 <= 4 and 0 <= i1 <= 4 and 0 <= i2 <= 4 and 0 <= o1 <= 4'
    for outer in range(NKIND):
        for inner in range(NKIND):
            if inner == 6 and outer != 6:
                continue
            fx = {'outer': outer, 'inner': inner}
            for k in ['i0', 'i1', 'i2'][ARITY[inner]:]:
                fx[k] = 0
            pre = ('0 <= pos < %d and ' % ARITY[outer]) + (inner_pre_q if q else inner_pre_t)
            for k in fx:
                pre = pre.replace('0 <= %s <= 3 and ' % k, '').replace('0 <= %s <= 4 and ' % k, '').replace(' and %s != 2' % k, '')
            if q and ARITY[inner] == 3:
                fx['i2'] = 0
                pre = pre.replace('0 <= i2 <= 3 and ', '').replace(' and i2 != 2', '')
            obs.append(Ob(pair_nesting, fixed=fx, pre=pre, name='pair_%s_in_%s' % (KIND_NAMES[inner], KIND_NAMES[outer]), timeout=120))
    if not q:
        for ka in (0, 2, 8, 9, 16):
            for kb in range(NKIND):
                if kb == 6:
                    continue
                obs.append(Ob(chain3, fixed={'k_a': ka, 'k_b': kb}, pre='0 <= k_c < %d and 0 <= o0 <= 4 and 0 <= o1 <= 4' % NKIND,
                              name='chain3_%s_%s_any' % (KIND_NAMES[ka], KIND_NAMES[kb]), timeout=300))
    for kind in range(NKIND):
        if kind == 6:
            continue
        n = ARITY[kind]
        fx = {'kind': kind}
        for k in ['r0', 'r1', 'r2'][n:]:
            fx[k] = 0
        pre = ' and '.join(['0 <= %s < %d' % (k, NREAL) for k in ['r0', 'r1', 'r2'][:n]] + ['len(xs) <= 2'])
        if kind in (0, 1):
            fx.update({'r1': 0, 'r2': 0})
            pre = '0 <= r0 < %d and len(xs) <= 2' % NREAL
        if q and n == 3 and kind not in (0, 1):
            fx['r2'] = 2
            pre = pre.replace('0 <= r2 < %d and ' % NREAL, '')
        obs.append(Ob(real_leaves, fixed=fx, pre=pre, name='real_leaves_%s' % KIND_NAMES[kind], timeout=120))
    for which in (0, 1):
        for ka in range(6):
            obs.append(Ob(chain_law, fixed={'which': which, 'ka': ka}, pre='0 <= kb < %d and len(xs) <= 2' % NREAL,
                          name='chain_law_w%d_a%d' % (which, ka)))
    obs.append(Ob(ref_recursion, pre='0 <= depth <= 3', name='ref_recursion'))
    obs.append(Ob(list_stop_lazy, pre='len(xs) <= 4 and 0 <= form <= 2', name='list_stop_lazy'))
    obs.append(Ob(list_stop_lazy, pre='len(xs) <= 4 and 0 <= form <= 2', twin='stopped_early', name='list_stop_lazy'))
    obs.append(Ob(callable_leaf, pre='0 <= which <= 6', name='callable_leaf'))
    obs.append(Ob(node_step, fixed={'kind': 8, 'n': 3}, pre='0 <= k0 <= 4 and 0 <= k1 <= 4 and 0 <= k2 <= 4', twin='node_err', name='node_step_coalesce'))
    obs.append(Ob(node_step, fixed={'kind': 8, 'n': 3}, pre='0 <= k0 <= 4 and 0 <= k1 <= 4 and 0 <= k2 <= 4', twin='node_ok', name='node_step_coalesce'))
    obs.append(Ob(pair_nesting, fixed={'outer': 2, 'inner': 8}, pre='0 <= pos < 3 and ' + inner_pre_t, twin='pair', name='pair_coalesce_in_dict'))
    obs.append(Ob(real_leaves, fixed={'kind': 9, 'r2': 0}, pre='0 <= r0 < %d and 0 <= r1 < %d and len(xs) <= 2' % (NREAL, NREAL), twin='real', name='real_leaves_coalesce_default'))
    obs.append(Ob(chain_law, fixed={'which': 0, 'ka': 2}, pre='0 <= kb < %d and len(xs) <= 2' % NREAL, twin='law', name='chain_law'))
    return obs
