"""C06 -- Non-mutating specs are pure: inputs untouched, outcome independent of history."""
import json
import os
import subprocess
import sys
from collections import OrderedDict
from typing import List

import glom as glom_pkg
from glom import (glom, T, S, Path, Coalesce, Val, Spec, Pipe, Call, Invoke, Ref, Match, M, Optional, Switch, Or, And, Check,
                  Fold, Sum, Flatten, Merge, Iter, Vars, Glommer, GlomError, PathAccessError, SKIP, STOP, Fill)
from glom.grouping import Group, First, Max, Avg, Limit
from glom.reduction import Count
import glom.core as gc

from vkit.common import start, reach, fail, known_open, concretize, OUT, run, VERIF
from vkit.ob import Ob
import vkit.stubs

META = {
    'explanation': 'A pool of 14 non-mutating (target, spec) thunks (dotted and wildcard paths, T expressions, dict/list/tuple specs, '
                   'Coalesce with a mutable default, Fold/Sum/Flatten/Merge, Group with aggregators, Iter pipelines, Vars, Match '
                   'with Optional defaults, Switch, a Glommer, a failing path) is evaluated in histories of up to 3 calls chosen by '
                   'symbolic picks and interleaved with symbolic toggles (PATH_STAR flip with a call under the other setting, '
                   'registration of an unrelated type, warm / over-full Path cache, cleared registry memo, mutation of an earlier '
                   'result); every call must equal the same thunk evaluated first in fresh library state with fresh spec objects, '
                   'and, for concrete data, the outcome computed in a FRESH INTERPRETER PROCESS at generation time. Deep snapshots '
                   '(structure and object identity) of target, spec and caller scope are compared before/after every thunk.',
    'bounds': {
        'quick': {'history length': 3, 'thunk pool': 14, 'toggles': 7, 'data': 'unbounded symbolic ints, lists <= 3'},
        'thorough': {'history length': '2 (every thunk pair x every toggle), 3 (8 leading pairs x 6 third thunks x 3 x 3 toggles; 4 concrete families with a free second call, 36 with a repeated one, checked against fresh-interpreter constants), 4 (12 families)'},
    },
    'stubs': ['S3 glom_debug=True', 'S4 state reset (the definition of fresh state for symbolic thunks)'],
    'outside_claim': ['>10000 distinct path strings is represented by a directly constructed over-full cache', 'interleaving with '
                      'calls outside the pool', 'specs with Assign/Delete/mutating callables (not in the property)'],
    'assumptions': [],
}


class NS:
    def __init__(self, **kw):
        self.__dict__.update(kw)


class Unrelated:
    pass


def make_specs():
    """fresh spec objects; index = thunk number"""
    return [
        'a.b',                                                       # 0 dotted path (cached text)
        'xs.*',                                                      # 1 wildcard path: PATH_STAR-sensitive text
        (T['a']['b'] + T['n']) * 2,                                  # 2 T expression with nested argument
        {'p': 'a.b', 'q': ('xs', [T * 2]), 'r': Val(7)},             # 3 dict / tuple / list specs
        Coalesce('zz.y', 'a.zz', default=[]),                        # 4 mutable default must be rebuilt every time
        ('xs', Sum()),                                               # 5
        ('xss', Flatten()),                                          # 6
        ('ds', Merge()),                                             # 7
        ('xs', Group({T % 2: [T]})),                                 # 8 accumulators live for one evaluation only
        ('xs', Group(Max())),                                        # 9
        ('xs', Iter().filter(lambda v: v > 0).map(T * 3).unique().all()),   # 10
        ('xs', (S(v=Vars()), [lambda v: v], T)),                     # 11 Vars
        Match({'a': {'b': int}, Optional('opt', default=[]): list, str: object}),      # 12 Optional default
        'a.zz.y',                                                    # 13 failing path
        Invoke(_collect).star(kwargs='opts').specs(c='n').constants(d=1),   # 14 a dict of the target star-starred, then more kwargs
        Coalesce('rec.zz', default='none'),                          # 15 a dict-subclass instance: its handler is looked up by fuzzy type
        ('n', _raise_a),                                             # 16 a non-mutating callable raising an application error ...
        ('n', _raise_b),                                             # 17 ... and one raising ANOTHER class with the same __name__
        Coalesce(Call(_pair, args=([T['a']['b'], T['opts']['a']],), kwargs={'k': {'d': T['opts']['b']}}), default='dflt'),   # 18 list / dict
        #    literals in ARGUMENT position, rebuilt for every evaluation -- also after an evaluation in which one member failed
        (S(pair=[T['n'], T['opts']['b']], none=[]), S['pair']),      # 19 the same through a scope assignment
    ]


def _collect(**kw):
    return sorted(kw.items())


def _pair(a, k=None):
    return [a, k]


class Rec(dict):
    __slots__ = ()


def _mk_err(tag):
    class ConnectionError(Exception):      # application classes sharing a __name__ (and shadowing a builtin's)
        origin = tag
    return ConnectionError


ERR_A, ERR_B = _mk_err('a'), _mk_err('b')


def _raise_a(t):
    raise ERR_A(t)


def _raise_b(t):
    raise ERR_B(t)


NTHUNK = 20
G = [None]


def target(x, y, xs):
    return {'a': {'b': x}, 'n': y, 'xs': xs, 'xss': [xs, [y]], 'ds': [{'k': x}, {'k': y, 'j': x}], 'opts': {'a': x, 'b': y},
            'rec': Rec(b=x)}


def outcome(thunk, spec, t, use_glommer=False):
    """normalised outcome: ('ok', value) or ('err', class name, part_idx/args summary)"""
    try:
        if use_glommer:
            v = G[0].glom(t, spec, glom_debug=True)
        elif thunk in (16, 17):
            v = glom(t, spec)                 # the normal exit path: the error is wrapped so that it is also a GlomError
        else:
            v = glom(t, spec, glom_debug=True)
    except GlomError as e:
        return ('err', type(e).__name__, getattr(e, 'part_idx', None), isinstance(e, ERR_A), isinstance(e, ERR_B))
    except (ERR_A, ERR_B) as e:
        return ('err-unwrapped', type(e).__name__, isinstance(e, ERR_A), isinstance(e, ERR_B))
    return ('ok', v)


def same_outcome(a, b):
    if a[0] != b[0]:
        return False
    if a[0] != 'ok':
        return a[1:] == b[1:]
    return a[1] == b[1] and type(a[1]) is type(b[1])


# ---- deep snapshots: structure + identity ------------------------------------------------------------
def snap(o, depth=0, seen=None):
    if seen is None:
        seen = set()
    if isinstance(o, (int, str, bytes, float, type(None), bool)):
        return ('v', o) if not isinstance(o, (str, bytes)) else ('s', o)
    if id(o) in seen or depth > 7:
        return ('ref', id(o))
    seen.add(id(o))
    if isinstance(o, dict):
        return ('d', type(o).__name__, id(o), [(snap(k, depth + 1, seen), snap(v, depth + 1, seen)) for k, v in o.items()])
    if isinstance(o, (list, tuple)):
        return ('l', type(o).__name__, id(o), [snap(v, depth + 1, seen) for v in o])
    if isinstance(o, (set, frozenset)):
        return ('set', id(o), len(o))
    if callable(o) and not hasattr(o, 'glomit'):
        return ('fn', id(o))
    attrs = []
    d = getattr(o, '__dict__', None)
    if isinstance(d, dict):
        for k, v in d.items():
            attrs.append((k, snap(v, depth + 1, seen)))
    for cls in type(o).__mro__:
        for name in getattr(cls, '__slots__', ()) or ():
            if isinstance(name, str) and hasattr(o, name):
                attrs.append((name, snap(getattr(o, name), depth + 1, seen)))
    return ('o', type(o).__name__, id(o), attrs)


def frame(p: int, x: int, y: int, xs: List[int]) -> bool:
    """target, spec and the caller's scope mapping are unchanged, structurally and in identity"""
    start()
    if p in (8, 9):
        xs = [concretize(v, -1, 2) for v in xs]
        if any(v is OUT for v in xs):
            return True
    specs = make_specs()
    spec = specs[p]
    t = target(x, y, xs)
    caller = {'ext': [x], 'num': y}
    b_t, b_s, b_c = snap(t), snap(spec), snap(caller)
    try:
        glom(t, spec, scope=caller)
    except GlomError:
        reach('frame_err')
    a_t, a_s, a_c = snap(t), snap(spec), snap(caller)
    reach('frame')
    if a_t != b_t:
        return fail(why='target changed', before=b_t, after=a_t)
    if a_s != b_s:
        return fail(why='spec changed', before=b_s, after=a_s, p=p)
    if a_c != b_c:
        return fail(why="caller's scope mapping changed", before=b_c, after=a_c)
    return True


NTOGGLE = 8


def _reg_dict_get():
    # a registration that changes what the pool's thunks compute: missing dict keys read as 'REG' (for dict and, since it is not
    # exact, for every dict subclass)
    glom_pkg.register(dict, get=lambda o, k: o[k] if k in o else 'REG')


def toggle(g, p, specs, t):
    """something that happens between two calls and must not influence the next one"""
    if g == 0:
        return
    if g == 1:                       # the other PATH_STAR setting, used with the same strings
        import warnings
        gc.PATH_STAR = False
        try:
            with warnings.catch_warnings():
                warnings.simplefilter('ignore')
                for s in ('a.b', 'xs.*', 'a.zz.y'):
                    try:
                        glom({'xs': {'*': 1}, 'a': {'b': 0}}, s)
                    except GlomError:
                        pass
        finally:
            gc.PATH_STAR = True
    elif g == 2:                     # registration of an unrelated type
        glom_pkg.register(Unrelated, get=lambda o, k: 'unrelated')
    elif g == 3:                     # warm caches on a different target type
        for s in ('a.b', 'xs.*', 'a.zz.y'):
            try:
                glom(NS(a=NS(b=1), xs=(5, 6)), s)
            except GlomError:
                pass
    elif g == 4:                     # over-full Path cache
        vkit.stubs.overfill_path_cache()
    elif g == 5:                     # cleared registry memo
        gc._DEFAULT_SCOPE[gc.TargetRegistry]._type_cache = {}
    elif g == 7:
        _reg_dict_get()
    else:                            # the same spec evaluated on another target, result mutated afterwards
        other = {'a': {'b': -1}, 'n': 5, 'xs': [9, 8], 'xss': [[9]], 'ds': [{'z': 1}]}
        try:
            r = glom(other, specs[p])
            if isinstance(r, list):
                r.append('junk')
            elif isinstance(r, dict):
                r['junk'] = 1
        except GlomError:
            pass


def _history(picks, toggles, x, y, xs, fresh_consts=None):
    # 1. every call first, in fresh state, with fresh spec objects and the registrations made before it replayed
    #    (registrations are inputs of the outcome; everything else that happened before must not matter)
    fresh = {}
    regs = 0
    for i, p in enumerate(picks):
        if i > 0 and toggles[i - 1] == 7:
            regs += 1
        if (p, regs) in fresh:
            continue
        vkit.stubs.reset_glom_state()
        if p == 3:
            G[0] = Glommer()
        for _ in range(regs):
            _reg_dict_get()
        fresh[(p, regs)] = outcome(p, make_specs()[p], target(x, y, xs), use_glommer=(p == 3))
    # 2. the history, with ONE set of spec objects shared by all calls
    vkit.stubs.reset_glom_state()
    if 3 in picks:
        G[0] = Glommer()
    specs = make_specs()
    results = []
    regs = 0
    for i, p in enumerate(picks):
        if i > 0 and toggles[i - 1] == 7:
            regs += 1
        t = target(x, y, xs)
        got = outcome(p, specs[p], t, use_glommer=(p == 3))
        results.append(got)
        if not same_outcome(got, fresh[(p, regs)]):
            return fail(why='outcome depends on history', call=i, p=p, got=got, fresh=fresh[(p, regs)], picks=picks, toggles=toggles)
        if regs:
            reach('after_registration')
        if fresh_consts is not None and regs == 0 and p != 3 and repr(got) != fresh_consts[str(p)]:
            return fail(why='differs from the fresh-interpreter outcome', p=p, got=repr(got), const=fresh_consts[str(p)])
        if got[0] == 'ok' and isinstance(got[1], list):
            got[1].append('mutated-by-caller')           # results must not be aliased to anything the library keeps
        elif got[0] == 'ok' and isinstance(got[1], dict) and got[1] is not t:
            got[1]['mutated-by-caller'] = 1
        if i < len(toggles):
            toggle(toggles[i], p, specs, t)
    reach('history')
    if len(set(picks)) < len(picks):
        reach('repeat')
    return True


def history2(p0: int, p1: int, g0: int, x: int, y: int) -> bool:
    """x, y symbolic; list data concrete (bucket keys of the Group thunk are hashed next to id(spec) keys)"""
    start()
    return _history([p0, p1], [g0], x, y, [1, -2, 3])


def history3(p0: int, p1: int, p2: int, g0: int, g1: int, x: int, y: int) -> bool:
    start()
    return _history([p0, p1, p2], [g0, g1], x, y, [1, -2, 3])


def history4(p0: int, p1: int, p2: int, p3: int, g0: int, g1: int, g2: int) -> bool:
    start()
    return _history([p0, p1, p2, p3], [g0, g1, g2], 3, -4, [1, -2, 3])


CONCRETE = (3, -4, [1, -2, 3])
FRESH_FILE = os.path.join(VERIF, 'build', 'gen', 'C06_fresh.json')


def fresh_process_outcomes():
    """run in a fresh interpreter: every thunk, first call of the process, concrete data"""
    out = {}
    for p in range(NTHUNK):
        code = ('import sys; sys.path.insert(0, %r); import harness.C06 as h; h.G[0] = h.Glommer(); '
                'print(repr(h.outcome(%d, h.make_specs()[%d], h.target(*h.CONCRETE), use_glommer=(%d == 3))))' % (VERIF, p, p, p))
        r = subprocess.run([sys.executable, '-c', code], capture_output=True, text=True, timeout=120,
                           env=dict(os.environ, PYTHONPATH=VERIF, VKIT_ENGINE='0'))
        out[str(p)] = r.stdout.strip()
    return out


_CONSTS = [None]


def history_concrete(p0: int, p1: int, p2: int, g0: int, g1: int) -> bool:
    """concrete data; compared with outcomes computed in a fresh interpreter process when the obligations were generated"""
    start()
    if _CONSTS[0] is None:
        if not os.path.exists(FRESH_FILE):
            os.makedirs(os.path.dirname(FRESH_FILE), exist_ok=True)
            with open(FRESH_FILE, 'w') as f:
                json.dump(fresh_process_outcomes(), f)
        with open(FRESH_FILE) as f:
            _CONSTS[0] = json.load(f)
    x, y, xs = CONCRETE
    return _history([p0, p1, p2], [g0, g1], x, y, list(xs), fresh_consts=_CONSTS[0])


def obligations(tier):
    q = tier == 'quick'
    os.makedirs(os.path.dirname(FRESH_FILE), exist_ok=True)
    with open(FRESH_FILE, 'w') as f:
        json.dump(fresh_process_outcomes(), f)
    obs = []
    for p in range(NTHUNK):
        obs.append(Ob(frame, fixed={'p': p}, pre='len(xs) <= 3', name='frame_%d' % p))
    for p0 in range(NTHUNK):
        gpre = '(g0 == 1 or g0 == 2 or g0 == 4 or g0 == 6 or g0 == 7)' if q else '0 <= g0 < %d' % NTOGGLE
        obs.append(Ob(history2, fixed={'p0': p0}, pre='0 <= p1 < %d and %s' % (NTHUNK, gpre),
                      name='history2_%d' % p0, timeout=400))
    # length 3, concrete data, checked against fresh-interpreter constants: first call, a toggle, the SAME spec again or
    # another thunk, a second toggle, any thunk
    p0s = (0, 1, 4, 8, 15) if q else (0, 1, 4, 8, 12, 15, 16, 18, 19)     # sized: each obligation replays 160 three-call histories
    g0s = (1, 4, 6, 7)
    for p0 in p0s:
        for g0 in g0s:
            for rep in ((True,) if q else (True, False)):
                if not rep and (p0 not in (0, 4, 15, 19) or g0 != 7):
                    continue             # sized for the thorough tier: about 600 paths per obligation, each path several glom calls from fresh state
                fx = {'p0': p0, 'g0': g0}
                pre = '0 <= p2 < %d and ' % NTHUNK + ('(g1 == 0 or g1 == 1 or g1 == 4 or g1 == 7)' if (q or not rep) else '0 <= g1 < %d' % NTOGGLE)
                if rep:
                    fx['p1'] = p0
                else:
                    pre += ' and (p1 == 1 or p1 == 8 or p1 == 19) and (p2 == 0 or p2 == 4 or p2 == 8 or p2 == 12 or p2 == 15 or p2 == 18)'
                obs.append(Ob(history_concrete, fixed=fx, pre=pre, name='history_concrete_%d_g%d_%s' % (p0, g0, 'rep' if rep else 'any'),
                              timeout=200 if rep else 1800, path_timeout=60))
    if not q:
        g3 = '(g0 == 1 or g0 == 4 or g0 == 7) and (g1 == 0 or g1 == 6 or g1 == 7)'
        p6 = '(p2 == 0 or p2 == 4 or p2 == 8 or p2 == 12 or p2 == 15 or p2 == 19)'
        for p0 in (0, 4, 15, 19):
            for p1 in (1, 4):
                obs.append(Ob(history3, fixed={'p0': p0, 'p1': p1}, pre=p6 + ' and ' + g3,
                              name='history3_%d_%d' % (p0, p1), timeout=1800))
        for p0 in (0, 1, 4, 8):
            for g0 in (1, 4, 6):
                obs.append(Ob(history4, fixed={'p0': p0, 'p1': p0, 'g0': g0, 'g1': 0, 'p2': 1}, pre='0 <= p3 < %d and 0 <= g2 < %d' % (NTHUNK, NTOGGLE),
                              name='history4_%d_g%d' % (p0, g0), timeout=600))
    obs.append(Ob(history2, fixed={'p0': 4}, pre='0 <= p1 < %d and 0 <= g0 < %d' % (NTHUNK, NTOGGLE), twin='repeat', name='history2_4'))
    obs.append(Ob(frame, fixed={'p': 13}, pre='len(xs) <= 3', twin='frame_err', name='frame_13'))
    obs.append(Ob(history2, fixed={'p0': 15}, pre='0 <= p1 < %d and (g0 == 6 or g0 == 7)' % NTHUNK, twin='after_registration', name='history2_15'))
    obs.append(Ob(history_concrete, fixed={'p0': 1, 'g0': 1, 'p1': 1}, pre='0 <= p2 < %d and 0 <= g1 < %d' % (NTHUNK, NTOGGLE), twin='history', name='history_concrete_1'))
    return obs
