"""C16 -- Group builds exactly the buckets and aggregates of a hand-written loop."""
from typing import List

from glom import glom, T, SKIP, STOP, Sum, Flatten, Merge, GlomError
from glom.grouping import Group, First, Max, Min, Avg, Limit
from glom.reduction import Count

from vkit.common import start, reach, fail, known_open, concretize, OUT, run
from vkit.ob import Ob
import vkit.stubs  # noqa: F401

META = {
    'explanation': 'Group spec trees (1-3 key levels over key functions with finite range, every leaf aggregator) built '
                   'from decision variables are evaluated by the real Group/GROUP code on symbolic item lists and compared '
                   'with a hand-written nested bucketing loop (key order = first occurrence, values in encounter order, '
                   'SKIP drops the item); the same spec object is evaluated twice and nested inside another Group.',
    'bounds': {
        'quick': {'items': 'len <= 3, unbounded symbolic ints (bucket keys are x % m / comparisons, finite range)',
                  'key levels': '1-2', 'thresholds, Limit(n)': 'symbolic'},
        'thorough': {'items': 'len <= 4', 'key levels': '1-3'},
    },
    'stubs': ['S3 glom_debug=True', 'S4 state reset'],
    'outside_claim': ['Sample (random)', 'nested (non top-level) Limit', 'bucket keys colliding with id(spec)',
                      'top-level aggregator on an empty input'],
    'assumptions': [],
}

NKEY = 5
NLEAF = 9


THR = [0]          # current threshold (symbolic), read by the key functions below


def _k1(x):
    return x % 3


def _k2(x):
    return SKIP if x == THR[0] else x % 2


def _k3(x):
    return 'all'


def _k4(x):
    return x > THR[0]


_KEYFNS = [(T % 2, (lambda x: x % 2)), (_k1, _k1), (_k2, _k2), (_k3, _k3), (_k4, _k4)]


def key_fn(kind, a):
    """(spec-side key function, reference key function).  Key functions and spec objects are
    module-level constants: GROUP keys its accumulator tree by id(spec) next to the bucket keys, and the
    engine compares a symbolic bucket key with every existing key, so ids must not change between
    executions (NotDeterministic otherwise)."""
    THR[0] = a
    return _KEYFNS[kind]


_SPEC_CACHE = {}


def group_spec(kinds, leaf, wrap=None):
    ck = (tuple(kinds), leaf, wrap)
    if ck not in _SPEC_CACHE:
        spec = leaf_spec(leaf)
        for k in reversed(kinds):
            spec = {_KEYFNS[k][0]: spec}
        _SPEC_CACHE[ck] = Group(spec)
    return _SPEC_CACHE[ck]


def _skip_small(t):
    """value spec that drops some items (SKIP) and keeps others"""
    return SKIP if t < THR[0] else t


def leaf_spec(kind):
    return [[T], First(), Max(), Min(), Avg(), Sum(), Count(), [T * 2], [_skip_small]][kind]


def leaf_ref(kind, items):
    if kind == 0:
        return list(items)
    if kind == 1:
        return items[0]
    if kind == 2:
        return max(items)
    if kind == 3:
        return min(items)
    if kind == 4:
        acc = 0.0
        for i in items:
            acc += i
        return acc / len(items)
    if kind == 5:
        return sum(items)
    if kind == 6:
        return len(items)
    if kind == 7:
        return [i * 2 for i in items]
    return [i for i in items if not i < THR[0]]


def loop_ref(items, keyfns, leaf):
    """the hand-written bucketing loop"""
    if not keyfns:
        return leaf_ref(leaf, items)
    kf = keyfns[0]
    buckets = {}
    for it in items:
        k = kf(it)
        if k is SKIP:
            continue
        if k not in buckets:
            buckets[k] = []
        buckets[k].append(it)
    out = {}
    for k, v in buckets.items():
        out[k] = loop_ref(v, keyfns[1:], leaf)
    return out


def _same(got, exp):
    if isinstance(exp, dict):
        if not isinstance(got, dict) or list(got) != list(exp):
            return False
        return all(_same(got[k], exp[k]) for k in exp)
    return got == exp


def _first_trunc(items, keyfns):
    """known finding C16-first-stops-key-level: index of the first item routed to an already-fired First"""
    seen = []
    for idx, it in enumerate(items):
        ks = []
        skip = False
        for kf in keyfns:
            k = kf(it)
            if k is SKIP:
                skip = True
                break
            ks.append(k)
        if skip:
            continue
        if ks in seen:
            return idx
        seen.append(ks)
    return len(items)


def _group(items, kinds, thr, leaf):
    fns = [key_fn(k, thr) for k in kinds]
    gspec = group_spec(kinds, leaf)
    refs = [rf for _, rf in fns]
    exp = loop_ref(items, refs, leaf)
    first = glom(items, gspec, glom_debug=True)
    if isinstance(first, dict):
        first['junk-added-by-caller'] = [1]               # a caller may do anything with a result ...
    elif isinstance(first, list):
        first.append('junk-added-by-caller')
    got = glom(items, gspec, glom_debug=True)             # ... the next evaluation of the same spec object starts clean
    got2 = glom(items, gspec, glom_debug=True)
    if not _same(got2, got):
        return fail(why='re-use differs', got=got, got2=got2)
    if leaf == 4:
        reach('avg')
    if _same(got, exp):
        reach('group_ok')
        if len(exp) > 1:
            reach('two_buckets')
        return True
    if leaf == 1 and known_open('known_C16_first_stops_level'):
        j = _first_trunc(items, refs)
        if _same(got, loop_ref(items[:j], refs, leaf)):
            return True
    return fail(why='differs from loop', got=got, exp=exp, items=items, kinds=kinds, leaf=leaf, thr=thr)


def group1(k0: int, leaf: int, items: List[int], thr: int) -> bool:
    start()
    if leaf == 4:
        items = [concretize(x, -1, 2) for x in items]
        if any(x is OUT for x in items):
            return True
    return _group(items, [k0], thr, leaf)


def group2(k0: int, k1: int, leaf: int, items: List[int], thr: int) -> bool:
    start()
    items = [concretize(x, 0, 3) for x in items]        # (D): two key levels, buckets hashed twice
    if any(x is OUT for x in items):
        return True
    return _group(items, [k0, k1], thr, leaf)


def group3(k0: int, k1: int, k2: int, leaf: int, items: List[int], thr: int) -> bool:
    start()
    items = [concretize(x, 0, 3) for x in items]
    if any(x is OUT for x in items):
        return True
    return _group(items, [k0, k1, k2], thr, leaf)


def group_idkey(leaf: int, items: List[int]) -> bool:
    """the item itself as bucket key (hashed -> finite domain)"""
    start()
    items = [concretize(x, 0, 2) for x in items]
    if any(x is OUT for x in items):
        return True
    ck = ('idkey', leaf)
    if ck not in _SPEC_CACHE:
        _SPEC_CACHE[ck] = Group({T: leaf_spec(leaf)})
    spec = _SPEC_CACHE[ck]
    exp = loop_ref(items, [lambda x: x], leaf)
    got = glom(items, spec, glom_debug=True)
    reach('idkey')
    if _same(got, exp):
        return True
    if leaf == 1 and known_open('known_C16_first_stops_level'):
        j = _first_trunc(items, [lambda x: x])
        if _same(got, loop_ref(items[:j], [lambda x: x], leaf)):
            return True
    return fail(got=got, exp=exp, items=items)


def group_limit(k0: int, leaf: int, n: int, items: List[int], thr: int) -> bool:
    """top-level Limit(n, subspec): only the first n items are seen"""
    start()
    if leaf == 4 or leaf == 1:
        return True
    sf, rf = key_fn(k0, thr)
    if n < 0:
        return True
    n = concretize(n, 0, 5)
    if n is OUT:
        return True
    ck = ('limit', k0, leaf, n)
    if ck not in _SPEC_CACHE:
        _SPEC_CACHE[ck] = Group(Limit(n, {sf: leaf_spec(leaf)}))
    spec = _SPEC_CACHE[ck]
    exp = loop_ref(items[:n] if n < len(items) else items, [rf], leaf)
    got = glom(items, spec, glom_debug=True)
    reach('limit')
    if n < len(items):
        reach('limit_cuts')
    if n == 0 or len(items) == 0:
        return got == {} or got is None or fail(why='empty', got=got)
    return _same(got, exp) or fail(got=got, exp=exp, n=n, items=items)


def group_limit_plain(n: int, items: List[int]) -> bool:
    start()
    if n < 0:
        return True
    got = glom(items, Group(Limit(n)), glom_debug=True)
    exp = items[:n] if n < len(items) else list(items)
    reach('limit_plain')
    if n == 0 or len(items) == 0:
        return got == [] or got is None or fail(why='empty', got=got)
    return got == exp or fail(got=got, exp=exp)


def group_nested(k0: int, leaf: int, items: List[int], thr: int) -> bool:
    """the same Group spec object used inside another spec for two different sub-targets and on its own:
    no data carried over between evaluations"""
    start()
    if leaf == 4:
        return True
    sf, rf = key_fn(k0, thr)
    inner = group_spec([k0], leaf)
    half = len(items) // 2
    a, b = items[:half], items[half:]
    ck = ('outer', k0, leaf)
    if ck not in _SPEC_CACHE:
        _SPEC_CACHE[ck] = {'x': ('a', inner), 'y': ('b', inner), 'n': ('a', Group(Count()))}
    outer = _SPEC_CACHE[ck]
    got = glom({'a': a, 'b': b}, outer, glom_debug=True)
    again = glom(a, inner, glom_debug=True)
    ea, eb = loop_ref(a, [rf], leaf), loop_ref(b, [rf], leaf)
    reach('nested')

    def ok(g, e, its):
        if _same(g, e):
            return True
        if leaf == 1 and known_open('known_C16_first_stops_level'):
            return _same(g, loop_ref(its[:_first_trunc(its, [rf])], [rf], leaf))
        return False
    if not (ok(got['x'], ea, a) and ok(got['y'], eb, b) and ok(again, ea, a)):
        return fail(why='nested/re-used Group differs', got=got, again=again, ea=ea, eb=eb)
    return (got['n'] == (len(a) if a else None)) or fail(why='count', n=got['n'], a=a)


def group_nested_agg(which: int, rows: List[int], thr: int) -> bool:
    """a Group spec inside the sub-spec of an aggregator leaf of another Group"""
    start()
    rows = [concretize(x, 0, 2) for x in rows]
    if any(x is OUT for x in rows):
        return True
    t = [[x, x + 1] if x else [x] for x in rows]                    # rows of length 1 or 2
    ck = ('nested_agg', which)
    if ck not in _SPEC_CACHE:
        _SPEC_CACHE[ck] = [Group({len: Sum(Group(Sum()))}), Group({len: Sum(Group(Count()))}), Group({len: [Group(Max())]})][which]
    spec = _SPEC_CACHE[ck]
    exp = {}
    for r in t:
        k = len(r)
        inner = [sum(r), len(r), max(r)][which]
        if which == 2:
            exp.setdefault(k, []).append(inner)
        else:
            exp[k] = exp.get(k, 0) + inner
    got = run(lambda: glom(t, spec, glom_debug=True))
    reach('nested_agg')
    if not t:
        return True
    return (got.kind == 'ok' and _same(got.value, exp)) or fail(got=got, exp=exp, t=t)


def group_fold_leaves(which: int, items: List[int], thr: int) -> bool:
    """Flatten and Merge as leaf aggregators"""
    start()
    if which == 0:
        t = [[x, x + 1] for x in items]
        THR[0] = thr
        if 'fl' not in _SPEC_CACHE:
            _SPEC_CACHE['fl'] = Group({(lambda p: p[0] > THR[0]): Flatten()})
        spec = _SPEC_CACHE['fl']
        exp = {}
        for p in t:
            k = p[0] > thr
            if k not in exp:
                exp[k] = []
            exp[k] = exp[k] + p
    else:
        t = [{'k': x, 'sign': x > thr} for x in items]
        if 'mg' not in _SPEC_CACHE:
            _SPEC_CACHE['mg'] = Group({T['sign']: Merge()})
        spec = _SPEC_CACHE['mg']
        exp = {}
        for d in t:
            k = d['sign']
            if k not in exp:
                exp[k] = {}
            exp[k].update(d)
    snap = [list(p) if which == 0 else dict(p) for p in t]
    got = glom(t, spec, glom_debug=True)
    got2 = glom(t, spec, glom_debug=True)
    reach('fold_leaves')
    if [list(p) if which == 0 else dict(p) for p in t] != snap:
        return fail(why='input mutated')
    return (_same(got, exp) and _same(got2, exp)) or fail(got=got, got2=got2, exp=exp)


def group_auto_fold(which: int, items: List[int], thr: int) -> bool:
    """a per-item reduction wrapped in Auto(...) inside a Group (as value spec or as key spec) reduces THAT ITEM -- it does
    not become an aggregator over the bucket"""
    from glom import Auto
    from glom.reduction import Count
    start()
    which = concretize(which, 0, 3)
    if which is OUT:
        return True
    t = [[x, x + 1][:(2 if x > thr else 1)] for x in items]          # items are lists of length 1 or 2
    key = 'af%d' % which
    if key not in _SPEC_CACHE:
        _SPEC_CACHE[key] = [Group({len: [Auto(Count())]}), Group({len: [Auto(Sum())]}), Group([Auto(Flatten([T]) if False else Count())]),
                            Group({Auto(Count()): [T]})][which]
    spec = _SPEC_CACHE[key]
    exp = {}
    if which == 0:
        for p in t:
            exp.setdefault(len(p), []).append(len(p))
    elif which == 1:
        for p in t:
            exp.setdefault(len(p), []).append(sum(p))
    elif which == 2:
        exp = [len(p) for p in t]
    else:
        for p in t:
            exp.setdefault(len(p), []).append(p)
    got = glom(t, spec, glom_debug=True)
    got2 = glom(t, spec, glom_debug=True)
    reach('auto_fold')
    return (_same(got, exp) and _same(got2, exp)) or fail(why='Auto(<reduction>) inside a Group reduces each item', got=got, exp=exp, which=which)


class _Rec:
    """records ordered on ONE field only: equal-ranking records stay distinguishable"""
    def __init__(self, rank, name):
        self.rank, self.name = rank, name

    def __lt__(self, other):
        return self.rank < other.rank

    def __gt__(self, other):
        return self.rank > other.rank

    def __repr__(self):
        return 'R(%s, %s)' % (self.rank, self.name)


def group_ties(which: int, r0: int, r1: int, r2: int, n: int) -> bool:
    """Min / Max over items that tie: the Python reference (min / max) keeps the FIRST of equal-ranking items; a bucket with a
    single item never needs a comparison (None, a dict, a complex number are fine)"""
    from glom.grouping import Min, Max
    start()
    which, n = concretize(which, 0, 3), concretize(n, 1, 3)
    r0, r1, r2 = concretize(r0, 0, 1), concretize(r1, 0, 1), concretize(r2, 0, 1)
    if OUT in (which, n, r0, r1, r2):
        return True
    if which < 2:
        items = [_Rec(r, i) for i, r in enumerate([r0, r1, r2][:n])]
        spec, exp = (Group(Min()), min(items)) if which == 0 else (Group(Max()), max(items))
        got = run(lambda: glom(items, spec, glom_debug=True))
        reach('ties')
        return (got.kind == 'ok' and got.value is exp) or fail(why='not the item min()/max() returns (first of the equal-ranking ones)', got=got, exp=exp, items=items)
    single = [None, {'a': 1}, 1j][r0 + r1]
    spec = Group({T: Min()}) if which == 2 else Group(Max())
    got = run(lambda: glom([single] if which == 3 else [0, 1, 2][:n], spec, glom_debug=True))
    reach('ties')
    if which == 3:
        return (got.kind == 'ok' and got.value is single) or fail(why='a single item needs no comparison', got=got, single=single)
    return (got.kind == 'ok' and got.value == dict((i, i) for i in range(n))) or fail(why='single-item buckets', got=got)


def obligations(tier):
    q = tier == 'quick'
    L = 3 if q else 4
    obs = []
    for k0 in range(NKEY):
        for leaf in range(NLEAF):
            pre = 'len(items) <= %d' % L if leaf != 4 else 'len(items) <= %d and all(-1 <= x <= 2 for x in items)' % (2 if q else 3)
            obs.append(Ob(group1, fixed={'k0': k0, 'leaf': leaf}, pre=pre, name='group1_k%d_l%d' % (k0, leaf), timeout=240 if leaf == 8 else None))
    dom = 2 if q else 3
    for k0 in range(NKEY):
        for k1 in range(NKEY):
            leaves = [0, 1, 2, 5] if q else range(NLEAF)
            for leaf in leaves:
                if q and (k0 * 5 + k1 + leaf) % 3:
                    continue
                pre = 'len(items) <= %d and all(0 <= x <= %d for x in items)' % (3 if leaf != 4 else 2, dom)
                obs.append(Ob(group2, fixed={'k0': k0, 'k1': k1, 'leaf': leaf}, pre=pre,
                              name='group2_k%d_k%d_l%d' % (k0, k1, leaf)))
    if not q:
        for k0 in range(NKEY):
            for k1 in range(NKEY):
                for k2 in (0, 2, 4):
                    for leaf in (0, 1, 5):
                        obs.append(Ob(group3, fixed={'k0': k0, 'k1': k1, 'k2': k2, 'leaf': leaf}, pre='len(items) <= 3 and all(0 <= x <= 2 for x in items)',
                                      name='group3_k%d_k%d_k%d_l%d' % (k0, k1, k2, leaf)))
    for leaf in range(NLEAF):
        if leaf == 4:
            continue
        obs.append(Ob(group_idkey, fixed={'leaf': leaf}, pre='len(items) <= 3', name='group_idkey_l%d' % leaf))
    for k0 in (0, 2, 4):
        for leaf in ((0, 2, 6) if q else (0, 2, 5, 6, 7)):
            obs.append(Ob(group_limit, fixed={'k0': k0, 'leaf': leaf}, pre='len(items) <= %d and 0 <= n <= 5' % L,
                          name='group_limit_k%d_l%d' % (k0, leaf)))
    obs.append(Ob(group_limit_plain, pre='len(items) <= %d' % (L + 1), name='group_limit_plain'))
    for k0 in range(NKEY):
        for leaf in ((0, 1, 5) if q else (0, 1, 3, 5, 6)):
            obs.append(Ob(group_nested, fixed={'k0': k0, 'leaf': leaf}, pre='len(items) <= %d' % (3 if q else 5),
                          name='group_nested_k%d_l%d' % (k0, leaf)))
    for w in range(3):
        obs.append(Ob(group_nested_agg, fixed={'which': w}, pre='len(rows) <= 3', name='group_nested_agg_%d' % w))
    for w in range(2):
        obs.append(Ob(group_fold_leaves, fixed={'which': w}, pre='len(items) <= %d' % L, name='group_fold_leaves_%d' % w))
    obs.append(Ob(group1, fixed={'k0': 0, 'leaf': 2}, pre='len(items) <= 3', twin='two_buckets', name='group1_k0_l2'))
    obs.append(Ob(group1, fixed={'k0': 0, 'leaf': 4}, pre='len(items) <= 3', twin='avg', name='group1_k0_l4'))
    obs.append(Ob(group_limit, fixed={'k0': 0, 'leaf': 0}, pre='len(items) <= 3 and 0 <= n <= 5', twin='limit_cuts', name='group_limit_k0_l0'))
    obs.append(Ob(group_nested, fixed={'k0': 0, 'leaf': 0}, pre='len(items) <= 3', twin='nested', name='group_nested_k0_l0'))
    obs.append(Ob(group_fold_leaves, fixed={'which': 1}, pre='len(items) <= 3', twin='fold_leaves', name='group_fold_leaves_1'))
    obs.append(Ob(group_auto_fold, pre='0 <= which <= 3 and len(items) <= 3', name='group_auto_fold', timeout=150))
    obs.append(Ob(group_auto_fold, pre='0 <= which <= 3 and len(items) <= 3', twin='auto_fold', name='group_auto_fold'))
    obs.append(Ob(group_ties, pre='0 <= which <= 3 and 0 <= r0 <= 1 and 0 <= r1 <= 1 and 0 <= r2 <= 1 and 1 <= n <= 3', name='group_ties'))
    obs.append(Ob(group_ties, pre='0 <= which <= 3 and 0 <= r0 <= 1 and 0 <= r1 <= 1 and 0 <= r2 <= 1 and 1 <= n <= 3', twin='ties', name='group_ties'))
    return obs
