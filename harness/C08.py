"""C08 -- Modes apply exactly to the wrapped spec; Fill and argument mode keep shape."""
from typing import List

from glom import (glom, T, S, A, Val, SKIP, Coalesce, Pipe, Switch, GlomError, Fill, Auto, Match, Or, Spec, Call, Invoke, Assign,
                  MatchError, Path)
from glom.core import MODE, MIN_MODE, AUTO, FILL
from glom.matching import _glom_match
from glom.grouping import Group, GROUP
import glom.core as gc

from vkit.common import start, reach, fail, known_open, concretize, OUT, run, limited
from vkit.ob import Ob
import vkit.stubs  # noqa: F401

META = {
    'explanation': 'Mode wrappers {Auto, Fill, Match} are nested to depth 2 and placed at every child position of tuples, Pipes, dict '
                   'values, Coalesce / Or branches and Switch keys and values, built from decision variables, with a mode probe at '
                   'every leaf; the mode each probe observes is compared with the purely lexical assignment "mode of a position = '
                   'innermost enclosing wrapper, else Auto". Mode-sensitive real specs (a string, a tuple, a list, a dict) before / '
                   'after / beside wrappers confirm the observable meaning, Group included. Literal container shapes (dict, list, '
                   'tuple, set, frozenset nested to depth 2, with T/Spec leaves, strings, numbers, callables, and self-referential '
                   'lists/dicts in argument position) are evaluated in Fill mode and in every argument position and compared for '
                   'type, shape and leaf treatment.',
    'bounds': {
        'quick': {'wrapper/structure nesting': 'depth 2 (root x 2 children), 10 node kinds', 'literal container nesting': '<= 2',
                  'leaf data': 'unbounded symbolic ints',
                  'step independence': '8 kinds of previous step (wildcard path with failing nested argument, recovered Coalesce / Or, nested chain, Fill, Invoke, S, double wildcard) x 7 next specs x 6 chain forms (tuple, Pipe in Auto/Fill/Match, Switch case, nested Auto) x which row is ragged',
                  'dict keys': '11 key kinds x Fill / Coalesce default / T-call argument'},
        'thorough': {'wrapper/structure nesting': 'depth 3 chains'},
    },
    'stubs': ['S3 glom_debug=True', 'S4 state reset'],
    'outside_claim': ['user-defined modes', 'nesting deeper than 3'],
    'assumptions': ['a plain tuple is a chain only in Auto mode and a plain dict is not evaluated as a pattern under a probe in Match '
                    'mode (such shapes are skipped)'],
}

LOG = []
NAMES = {AUTO: 'auto', FILL: 'fill', _glom_match: 'match', GROUP: 'group'}


class Probe:
    def __init__(self, pos, fail=False):
        self.pos, self.fail = pos, fail

    def glomit(self, target, scope):
        LOG.append((self.pos, NAMES.get(scope[MODE], 'other')))
        if self.fail:
            raise GlomError('planned')
        return target

    def __repr__(self):
        return 'P%s' % self.pos


LEAF = 9
W_AUTO, W_FILL, W_MATCH, K_TUPLE, K_PIPE, K_DICT, K_COAL, K_SWITCH, K_OR = range(9)
KIND_NAMES = ['Auto', 'Fill', 'Match', 'tuple', 'pipe', 'dict', 'coalesce', 'switch', 'or']
WRAP = {W_AUTO: (Auto, 'auto'), W_FILL: (Fill, 'fill'), W_MATCH: (Match, 'match')}


class Ctx:
    def __init__(self):
        self.n = 0
        self.exp = {}
        self.skip = False


def mk(sh, ctx, mode, fail=False):
    if sh == LEAF:
        i = ctx.n
        ctx.n += 1
        ctx.exp[i] = mode
        return Probe(i, fail)
    k = sh[0]
    if k in WRAP:
        return WRAP[k][0](mk(sh[1], ctx, WRAP[k][1]))
    a, b = sh[1], sh[2]
    if k == K_TUPLE:
        if mode != 'auto':
            ctx.skip = True
            return None
        return (mk(a, ctx, mode), mk(b, ctx, mode))
    if k == K_PIPE:
        return Pipe(mk(a, ctx, mode), mk(b, ctx, mode))
    if k == K_DICT:
        if mode == 'match':
            ctx.skip = True
            return None
        return {'x': mk(a, ctx, mode), 'y': mk(b, ctx, mode)}
    if k == K_COAL:
        return Coalesce(mk(a, ctx, mode, fail=(a == LEAF)), mk(b, ctx, mode))
    if k == K_OR:
        return Or(mk(a, ctx, mode, fail=(a == LEAF)), mk(b, ctx, mode))
    return Switch([(mk(a, ctx, mode), mk(b, ctx, mode))])


def shape_of(root, c0, c1, d):
    def sub(c):
        if c == LEAF:
            return LEAF
        if c in WRAP:
            return (c, LEAF if d == LEAF or d is None else ((d, LEAF) if d in WRAP else (d, LEAF, LEAF)))
        return (c, LEAF, LEAF)
    if root == LEAF:
        return LEAF
    if root in WRAP:
        return (root, sub(c0))
    return (root, sub(c0), sub(c1))


def mode_extent(root: int, c0: int, c1: int, d: int, x: int) -> bool:
    """root(child0, child1); a wrapper child wraps a further node of kind d"""
    start()
    sh = shape_of(root, c0, c1, d)
    ctx = Ctx()
    spec = mk(sh, ctx, 'auto')
    if ctx.skip:
        return True
    del LOG[:]
    run(lambda: glom({'t': x}, spec, glom_debug=True))
    if LOG:
        reach('probed')
    for pos, seen in LOG:
        if seen != ctx.exp[pos]:
            return fail(why='probe saw a mode other than its innermost enclosing wrapper', pos=pos, seen=seen, exp=ctx.exp[pos], shape=sh)
        if seen != 'auto':
            reach('non_auto')
    return True


def mode_chain3(k_a: int, k_b: int, k_c: int, side: int, x: int) -> bool:
    """depth-3 chains: a(b(c(leaf..)..)..) with the nested node on the left or right"""
    start()
    def nest(k, inner):
        if k in WRAP:
            return (k, inner)
        return (k, inner, LEAF) if side == 0 else (k, LEAF, inner)
    sh = nest(k_a, nest(k_b, nest(k_c, LEAF)))
    ctx = Ctx()
    spec = mk(sh, ctx, 'auto')
    if ctx.skip:
        return True
    del LOG[:]
    run(lambda: glom({'t': x}, spec, glom_debug=True))
    reach('chain3')
    for pos, seen in LOG:
        if seen != ctx.exp[pos]:
            return fail(why='mode', pos=pos, seen=seen, exp=ctx.exp[pos], shape=sh)
    return True


def real_probes(which: int, x: int, y: int) -> bool:
    """observable meaning of mode-sensitive specs before / after / beside a wrapper"""
    start()
    t = {'a': x, 'b': [y]}
    if which == 0:       # after Fill in a chain the string is a path again
        got, exp = glom(t, (Fill(T), 'a'), glom_debug=True), x
    elif which == 1:     # after Match in a chain
        got, exp = glom(t, (Match(dict), 'a'), glom_debug=True), x
    elif which == 2:     # inside Fill a string is a literal and a tuple a constructor
        got, exp = glom(t, Fill(('a', T['a'], ['b'], {'k': T['b']})), glom_debug=True), ('a', x, ['b'], {'k': [y]})
    elif which == 3:     # sibling dict values
        got, exp = glom(t, {'f': Fill('a'), 'p': 'a', 'm': Match(dict, default=0)}, glom_debug=True), {'f': 'a', 'p': x, 'm': t}
    elif which == 4:     # Auto inside Fill restores path lookup for its subtree only
        got, exp = glom(t, Fill({'lit': 'a', 'auto': Auto('a'), 'again': 'b'}), glom_debug=True), {'lit': 'a', 'auto': x, 'again': 'b'}
    elif which == 5:     # Pipe steps after a Fill step
        got, exp = glom(t, Pipe(Fill({'q': T['a']}), 'q'), glom_debug=True), x
    elif which == 6:     # Coalesce branches
        got, exp = glom(t, Coalesce(Match(str), Fill('a'), 'a'), glom_debug=True), 'a'
    elif which == 7:     # other Switch cases evaluate in the mode in force before
        got, exp = glom(t, Switch([(Match(str), Val('s')), (Match(dict), 'a')]), glom_debug=True), x
    elif which == 8:     # Match inside a list spec, Auto list spec afterwards
        got, exp = glom(t, ('b', [Match(int)], [T]), glom_debug=True), [y]
    elif which == 9:     # Group, then Auto again
        got, exp = glom(t, ('b', Group([T]), [T]), glom_debug=True), [y]
    elif which == 10:    # inside Group a list is an accumulator, outside an iteration
        got, exp = glom([x, y], {'g': Group([T]), 'l': [T]}, glom_debug=True), {'g': [x, y], 'l': [x, y]}
    elif which == 11:    # Auto nested in Match: the value spec is a path again
        got, exp = glom(t, Match({'a': object, 'b': Auto(('0',))}), glom_debug=True), {'a': x, 'b': y}
    else:
        got, exp = glom(t, Auto((Fill({'k': 'a'}), 'k')), glom_debug=True), 'a'
    reach('real')
    return got == exp or fail(which=which, got=got, exp=exp)


# ---- Fill and argument mode keep shape ----------------------------------------------------------------
def marker(t):
    return 'called'


# ---- the mode a step runs in does not depend on what the previous step was ----------------------------
class Capture:
    """records the value handed to the next step (and the mode in force there, argument mode included)"""
    def __init__(self):
        self.seen = []

    def glomit(self, target, scope):
        up = scope[gc.UP].maps[0]
        self.seen.append((target, 'arg' if up.get(MIN_MODE) else NAMES.get(up[MODE], 'other')))
        return target


def _ident(v):
    return v


N_PREV, N_NEXT = 8, 7


def _prev_step(kind):
    if kind == 0:      # wildcard path whose nested argument fails for the rows lacking 'idx' (those rows are dropped)
        return T['rows'].__star__()['vals'][T['idx']]
    if kind == 1:
        return Coalesce('nope', T['nope2'], default=T['plain'])
    if kind == 2:
        return Or(T['nope'], T['plain'])
    if kind == 3:
        return (T['rows'], [Coalesce(T['vals'][T['idx']], default=SKIP)])
    if kind == 4:
        return Fill([T['plain'], 'lit'])
    if kind == 5:
        return Invoke(_ident).specs(T['plain'])
    if kind == 6:
        return S(k=T['plain'])
    return T['rows'].__star__()['vals'].__star__()


def _next_step(kind):
    return ['0', [len], {'n': len, 'z': '0'}, len, ('0',), [str], 'plain'][kind]


def step_independence(prev: int, nxt: int, chain: int, r: int) -> bool:
    """chain(prev, next) behaves as chain(Val(value prev produced), next): a string is a path / a literal / a pattern, a list
    an iteration / a container / a pattern ... according to the chain's own mode, whatever the previous step did inside
    (dropped wildcard children with failing arguments, recovered branches, its own mode wrapper, argument evaluation)"""
    from glom import SKIP as _S  # noqa: F401
    start()
    prev, nxt, chain, r = concretize(prev, 0, N_PREV - 1), concretize(nxt, 0, N_NEXT - 1), concretize(chain, 0, 5), concretize(r, -1, 2)
    if OUT in (prev, nxt, chain, r):
        return True
    rows = [{'idx': 1, 'vals': ['a0', 'a1']}, {'idx': 0, 'vals': ['b0', 'b1']}, {'idx': 0, 'vals': ['c0', 'c1']}]
    if r >= 0:
        del rows[r]['idx']
    t = {'rows': rows, 'plain': ['p0', 'p1'], '0': 'zero'}

    def build(first, second):
        if chain == 0:
            return (first, second)
        if chain == 1:
            return Pipe(first, second)
        if chain == 2:
            return Fill(Pipe(first, second))
        if chain == 3:
            return Match(Pipe(first, second))
        if chain == 4:
            return Switch([(first, second)])
        return Auto((first, Pipe(second)))
    cap = Capture()
    o1 = run(lambda: glom(t, build(_prev_step(prev), cap), glom_debug=True))
    if o1.kind != 'ok' or len(cap.seen) != 1:
        return True                                  # the previous step itself fails in this mode: nothing follows
    v, seen = cap.seen[0]
    want_mode = {0: 'auto', 1: 'auto', 2: 'fill', 3: 'match', 4: 'auto', 5: 'auto'}[chain]
    if seen != want_mode:
        return fail(why='the step after sees another mode than the chain runs in', seen=seen, want=want_mode, prev=prev, chain=chain)
    reach('independent')
    got = run(lambda: glom(t, build(_prev_step(prev), _next_step(nxt)), glom_debug=True))
    ref = run(lambda: glom(t, build(Val(v) if chain != 4 else Val(1), _next_step(nxt)), glom_debug=True))
    if got.kind != ref.kind or (got.kind == 'ok' and got.value != ref.value) or (got.kind != 'ok' and type(got.exc) is not type(ref.exc)):
        return fail(why='the next step was not evaluated as it is after a plain value', got=got, ref=ref, prev=prev, nxt=nxt, chain=chain, r=r)
    return True


# ---- Fill / argument mode evaluate dict KEYS like every other member --------------------------------------
def fill_keys(kind: int, site: int, x: int, y: int) -> bool:
    start()
    kind, site = concretize(kind, 0, 10), concretize(site, 0, 2)
    x, y = concretize(x, 0, 2), concretize(y, 3, 4)
    if OUT in (kind, site, x, y):
        return True
    t = {'a': x, 'b': y, 'name': 'n', 'f': _ident}
    key, fill_exp, arg_exp = [
        ('a', 'a', 'a'),
        (T['a'], x, x),
        (Spec(T['b']), y, y),
        (Auto('name'), 'n', 'n'),
        (Val('lit'), 'lit', 'lit'),
        (Coalesce(T['zz'], default='dflt'), 'dflt', 'dflt'),
        (marker, 'called', marker),                          # callables are called in Fill mode, kept in argument mode
        ((T['a'], 'a'), (x, 'a'), (x, 'a')),
        (frozenset([T['b']]), frozenset([y]), frozenset([y])),
        (Pipe(T['a'], T + 1), x + 1, x + 1),
        (7, 7, 7),
    ][kind]
    lit = {key: T['b'], 'other': 'b'}
    if site == 0:
        got, exp = glom(t, Fill(lit), glom_debug=True), {fill_exp: y, 'other': 'b'}
    elif site == 1:
        got, exp = glom(t, Coalesce('zz', default=lit), glom_debug=True), {arg_exp: y, 'other': 'b'}
    else:
        got, exp = glom(t, T['f'](lit), glom_debug=True), {arg_exp: y, 'other': 'b'}
    reach('fill_keys')
    return (got == exp and list(got) == list(exp)) or fail(why='dict keys are members like any other', got=got, exp=exp, kind=kind, site=site)


NCONT = 5
CONT_NAMES = ['dict', 'list', 'tuple', 'set', 'frozenset']


def lit_shape(outer, inner, x, y, hashable_only=False):
    """(literal with T/Spec leaves, expected value with leaves replaced) -- target {'a': x, 'b': y}"""
    leaves = [T['a'], 'a', 7, Spec(T['b'])]
    vals = [x, 'a', 7, y]
    if inner is None:
        inner_l, inner_v = None, None
    elif inner == 0:
        inner_l, inner_v = {'k': T['a'], 'a': 'a'}, {'k': x, 'a': 'a'}
    elif inner == 1:
        inner_l, inner_v = [T['a'], 'a'], [x, 'a']
    elif inner == 2:
        inner_l, inner_v = (T['b'], 7), (y, 7)
    elif inner == 3:
        inner_l, inner_v = {Spec(T['b']), 7}, {y, 7}
    else:
        inner_l, inner_v = frozenset([T['a']]), frozenset([x])
    items_l = list(leaves)
    items_v = list(vals)
    if inner_l is not None and not (outer in (3, 4) and inner in (0, 1, 3)):
        items_l.append(inner_l)
        items_v.append(inner_v)
    if outer == 0:
        return dict(('k%d' % i, v) for i, v in enumerate(items_l)), dict(('k%d' % i, v) for i, v in enumerate(items_v))
    if outer == 1:
        return list(items_l), list(items_v)
    if outer == 2:
        return tuple(items_l), tuple(items_v)
    if outer == 3:
        return set(items_l), set(items_v)
    return frozenset(items_l), frozenset(items_v)


def _same_shape(g, e):
    if type(g) is not type(e):
        return False
    if isinstance(e, dict):
        return list(g.keys()) == list(e.keys()) and all(_same_shape(g[k], e[k]) for k in e)
    if isinstance(e, (list, tuple)):
        return len(g) == len(e) and all(_same_shape(a, b) for a, b in zip(g, e))
    return g == e


def fill_shape(outer: int, inner: int, x: int, y: int) -> bool:
    start()
    if outer in (3, 4) or inner in (3, 4):
        x, y = concretize(x, 0, 3), concretize(y, 4, 6)      # set members are hashed: (D)
        if x is OUT or y is OUT:
            return True
    lit, exp = lit_shape(outer, inner if inner < NCONT else None, x, y)
    t = {'a': x, 'b': y}
    got = glom(t, Fill(lit), glom_debug=True)
    reach('fill')
    if not _same_shape(got, exp):
        return fail(why='Fill must rebuild the container with the same type and shape', got=got, exp=exp)
    # callables are called in Fill mode (documented); strings and numbers kept
    return glom(t, Fill([marker, 'a', 3]), glom_debug=True) == ['called', 'a', 3] or fail(why='fill leaf treatment')


def fill_nested_only(outer: int, inner: int, x: int, y: int) -> bool:
    """the outer container holds only constants plus ONE mutable container; the specs sit inside that inner container
    (no spec is a direct member of the outer one): still every embedded spec is replaced by its value"""
    start()
    outer, inner = concretize(outer, 0, 3), concretize(inner, 0, 3)
    x, y = concretize(x, 0, 2), concretize(y, 3, 4)
    if OUT in (outer, inner, x, y):
        return True
    t = {'a': x, 'b': y, 'name': 'n'}
    in_l, in_v = [([T['a'], T['b']], [x, y]), ({'k': T['a'], 'lit': 'a'}, {'k': x, 'lit': 'a'}),
                  ([Auto('name'), 'a'], ['n', 'a']), ([('deep', [Spec(T['b'])])], [('deep', [y])])][inner]
    if outer == 0:
        lit, exp = ('id', in_l), ('id', in_v)
    elif outer == 1:
        lit, exp = ('id', ('nested', in_l), 7), ('id', ('nested', in_v), 7)
    elif outer == 2:
        lit, exp = ['id', in_l], ['id', in_v]
    else:
        lit, exp = {'id': 'id', 'in': ('t', in_l)}, {'id': 'id', 'in': ('t', in_v)}
    got = glom(t, Fill(lit), glom_debug=True)
    reach('fill_nested_only')
    return _same_shape(got, exp) or fail(why='a spec nested below constant members was not evaluated', got=got, exp=exp)


def arg_shape(site: int, outer: int, inner: int, x: int, y: int) -> bool:
    """argument positions: 0 Coalesce default, 1 Call args, 2 T-call argument, 3 S(k=...), 4 Assign value, 5 Match default,
    6 Invoke constants stay literal / specs evaluated"""
    start()
    if outer in (3, 4) or inner in (3, 4):
        x, y = concretize(x, 0, 3), concretize(y, 4, 6)
        if x is OUT or y is OUT:
            return True
    lit, exp = lit_shape(outer, inner if inner < NCONT else None, x, y)
    t = {'a': x, 'b': y, 'f': (lambda v: v), 'dst': {}}
    if site == 0:
        got = glom(t, Coalesce('zz', default=lit), glom_debug=True)
    elif site == 1:
        got = glom(t, Call((lambda v, k=None: (v, k)), args=(lit,), kwargs={'k': lit}), glom_debug=True)
        if not (isinstance(got, tuple) and _same_shape(got[1], exp)):
            return fail(why='Call kwargs', got=got)
        got = got[0]
    elif site == 2:
        got = glom(t, T['f'](lit), glom_debug=True)
    elif site == 3:
        got = glom(t, (S(k=lit), S['k']), glom_debug=True)
    elif site == 4:
        glom(t, Assign('dst.v', lit), glom_debug=True)
        got = t['dst']['v']
    elif site == 5:
        got = glom(t, Match(str, default=lit), glom_debug=True)
    else:
        got = glom(t, Invoke(lambda v: v).constants(lit), glom_debug=True)
        reach('arg')
        return got is lit or fail(why='Invoke.constants must pass the literal itself', got=got)
    reach('arg')
    if not _same_shape(got, exp):
        return fail(why='argument containers must be rebuilt with the same type and shape', got=got, exp=exp, site=site)
    # callables are kept (not called) in argument position
    kept = glom(t, Coalesce('zz', default=[marker, 'a']), glom_debug=True)
    return (kept[0] is marker and kept[1] == 'a') or fail(why='callable must be kept as a literal in argument position', kept=kept)


def arg_cyclic(site: int, kind: int, x: int) -> bool:
    """self-referential containers in argument position are reproduced with the same cyclic shape"""
    start()
    t = {'a': x, 'f': (lambda v: v), 'dst': {}, 'm': [x + 1, x + 2], 'i': 1}
    if kind == 0:
        lit = [T['a'], 'a']
        lit.append(lit)
    elif kind == 3:                # a member that itself needs an argument evaluated, BEFORE the back-reference
        lit = [T['m'][T['i']], Coalesce('zz', default=['d']), T['f'](T['a'])]
        lit.append(lit)
    elif kind == 4:                # no cycle: one list referenced from two places stays ONE list
        shared = [T['a']]
        lit = [shared, {'again': shared}]
    elif kind == 1:
        lit = {'v': T['a'], 's': 'a'}
        lit['me'] = lit
    else:
        inner = [T['a']]
        lit = {'l': inner}
        inner.append(lit)          # dict -> list -> dict cycle
    try:
        if site == 0:
            got = limited(lambda: glom(t, Coalesce('zz', default=lit), glom_debug=True))
        elif site == 1:
            got = limited(lambda: glom(t, T['f'](lit), glom_debug=True))
        elif site == 2:
            got = limited(lambda: glom(t, (S(k=lit), S['k']), glom_debug=True))
        else:
            limited(lambda: glom(t, Assign('dst.v', lit), glom_debug=True))
            got = t['dst']['v']
    except RecursionError:
        return fail(why='evaluating a self-referential argument does not terminate', kind=kind, site=site)
    reach('cyclic')
    if got is lit:
        return fail(why='the literal itself was returned, not a rebuilt structure')
    if kind == 0:
        ok = type(got) is list and len(got) == 3 and got[0] == x and got[1] == 'a' and got[2] is got
    elif kind == 3:
        ok = type(got) is list and len(got) == 4 and got[0] == x + 2 and got[1] == ['d'] and got[2] == x and got[3] is got
    elif kind == 4:
        ok = type(got) is list and got[0] == [x] and got[1] == {'again': [x]} and got[1]['again'] is got[0]
    elif kind == 1:
        ok = type(got) is dict and got['v'] == x and got['s'] == 'a' and got['me'] is got and list(got) == ['v', 's', 'me']
    else:
        ok = type(got) is dict and type(got['l']) is list and got['l'][0] == x and got['l'][1] is got
    return ok or fail(why='cyclic shape', got=repr(got)[:200])


def obligations(tier):
    q = tier == 'quick'
    obs = []
    kinds = list(range(9)) + [LEAF]
    ck = '(' + ' or '.join('{v} == %d' % k for k in kinds) + ')'
    for root in range(9):
        for c0 in kinds:
            fx = {'root': root, 'c0': c0}
            pre = ck.format(v='c1') + ' and ' + ck.format(v='d')
            if root in WRAP:
                fx['c1'] = LEAF
                pre = ck.format(v='d')
            if q:
                pre = pre.replace(ck.format(v='d'), '(d == 9 or d == 1 or d == 2 or d == 3 or d == 6)')
            obs.append(Ob(mode_extent, fixed=fx, pre=pre, name='mode_extent_%s_%s' % (KIND_NAMES[root], 'leaf' if c0 == LEAF else KIND_NAMES[c0]), timeout=120))
    if q:
        # wrapper -> chaining node -> anything: a chain that itself runs in a non-Auto mode
        for ka in (W_FILL, W_MATCH, W_AUTO):
            for kb in (K_PIPE, K_SWITCH, K_COAL):
                obs.append(Ob(mode_chain3, fixed={'k_a': ka, 'k_b': kb}, pre='0 <= k_c <= 8 and 0 <= side <= 1',
                              name='mode_chain3_%s_%s' % (KIND_NAMES[ka], KIND_NAMES[kb])))
    if not q:
        for ka in range(9):
            for kb in range(9):
                obs.append(Ob(mode_chain3, fixed={'k_a': ka, 'k_b': kb}, pre='0 <= k_c <= 8 and 0 <= side <= 1',
                              name='mode_chain3_%s_%s' % (KIND_NAMES[ka], KIND_NAMES[kb])))
    obs.append(Ob(real_probes, pre='0 <= which <= 12', name='real_probes'))
    for prev in range(N_PREV):
        for chain in range(6):
            obs.append(Ob(step_independence, fixed={'prev': prev, 'chain': chain}, pre='0 <= nxt <= %d and -1 <= r <= 2' % (N_NEXT - 1),
                          name='step_independence_p%d_c%d' % (prev, chain), timeout=120))
    obs.append(Ob(fill_nested_only, pre='0 <= outer <= 3 and 0 <= inner <= 3 and 0 <= x <= 2 and 3 <= y <= 4', name='fill_nested_only'))
    obs.append(Ob(fill_nested_only, pre='0 <= outer <= 3 and 0 <= inner <= 3 and 0 <= x <= 2 and 3 <= y <= 4', twin='fill_nested_only', name='fill_nested_only'))
    for site in range(3):
        obs.append(Ob(fill_keys, fixed={'site': site}, pre='0 <= kind <= 10 and 0 <= x <= 2 and 3 <= y <= 4', name='fill_keys_s%d' % site))
    for outer in range(NCONT):
        obs.append(Ob(fill_shape, fixed={'outer': outer}, pre='0 <= inner <= 5', name='fill_shape_%s' % CONT_NAMES[outer]))
        for site in range(7):
            obs.append(Ob(arg_shape, fixed={'outer': outer, 'site': site}, pre='0 <= inner <= 5', name='arg_shape_s%d_%s' % (site, CONT_NAMES[outer])))
    for site in range(4):
        obs.append(Ob(arg_cyclic, fixed={'site': site}, pre='0 <= kind <= 4', name='arg_cyclic_s%d' % site))
    obs.append(Ob(mode_extent, fixed={'root': K_TUPLE, 'c0': W_FILL}, pre=ck.format(v='c1') + ' and ' + ck.format(v='d'), twin='non_auto', name='mode_extent_tuple_Fill'))
    obs.append(Ob(mode_extent, fixed={'root': K_TUPLE, 'c0': W_FILL}, pre=ck.format(v='c1') + ' and ' + ck.format(v='d'), twin='probed', name='mode_extent_tuple_Fill'))
    obs.append(Ob(arg_shape, fixed={'outer': 1, 'site': 0}, pre='0 <= inner <= 5', twin='arg', name='arg_shape_s0_list'))
    obs.append(Ob(arg_cyclic, fixed={'site': 0}, pre='0 <= kind <= 4', twin='cyclic', name='arg_cyclic_s0'))
    obs.append(Ob(step_independence, fixed={'prev': 0, 'chain': 2}, pre='0 <= nxt <= %d and -1 <= r <= 2' % (N_NEXT - 1), twin='independent', name='step_independence_p0_c2'))
    obs.append(Ob(fill_keys, fixed={'site': 0}, pre='0 <= kind <= 10 and 0 <= x <= 2 and 3 <= y <= 4', twin='fill_keys', name='fill_keys_s0'))
    return obs
