"""C19 -- The CLI prints what the library computes; default-format specs never execute."""
import ast
import contextlib
import io
import json
import os
import sys
import tempfile
from typing import List

import glom as glom_pkg
from glom import glom, GlomError, Path, T
from glom import cli
from face import UsageError

from vkit.common import start, reach, fail, known_open, concretize, OUT, run
from vkit.ob import Ob
import vkit.stubs  # noqa: F401

META = {
    'explanation': 'glom_cli is run on JSON-representable targets and literal specs built from decision variables (values from small '
                   'domains because they reach json.dumps) and its stdout / return value compared with json.dumps(glom(target, spec), '
                   'indent=indent or None, sort_keys=True) resp. the "<ErrorClass>: ..." line and status 1. mw_get_target is run '
                   'with the file system, stdin and isatty replaced by stubs and SYMBOLIC presence flags for every source: exactly '
                   'the documented source is read, conflicting sources and unreadable files are usage errors. With recording stubs '
                   'for ast.literal_eval / json.loads / _eval_python_full_spec / _compile_code / compile / exec / eval and a '
                   'SYMBOLIC spec text, the default and json formats never reach an executing function and hand exactly the text '
                   '(or its repr) to the literal parser. Target loaders and cli.main through face are exercised on concrete '
                   'catalogues.',
    'bounds': {
        'quick': {'spec text': 'length <= 2 over the alphabet "\'[({_a1.l)', 'targets': '6 shapes x values 0..2', 'specs': '8 literal shapes',
                  'indent': '0..4', 'end-to-end runs through face': 10},
        'thorough': {'spec text': 'length <= 3', 'end-to-end runs through face': 40},
    },
    'stubs': ['S5: open / sys.stdin / face.utils.isatty replaced by harness stubs in source_select; ast, json and the executing helpers '
              'replaced by recording stubs in never_exec', 'S4 state reset'],
    'outside_claim': ['python -m glom as a separate OS process with real pipes', 'the inner safety of ast.literal_eval (assumed as '
                      'its documented contract)', 'malformed *spec* text (the statement only covers malformed targets)'],
    'assumptions': [],
}


def _stdout_of(fn):
    buf = io.StringIO()
    with contextlib.redirect_stdout(buf):
        r = fn()
    return r, buf.getvalue()


NT = 7
NS = 13


def mk_target(k, a, b):
    return [{'a': {'b': a}, 'c': [b, 1]}, [a, b, {'k': a}], {'a': a}, a, {'a': None, 'c': 'str-%d' % b}, {'a': {'b': [a, {'z': b}]}, 'c': []},
            {'a': (a, b), 'c': ((b,), 1)}][k]           # tuples: only a Python-literal target can hold them


def mk_spec(k):
    return ['a.b', {'x': 'a.b', 'y': 'c'}, ['c', 'a'], 'a', ('a', 'b'), 'c.0', {'x': ('a', 'b')}, 'zz.missing', 'a.b.1.z',
            [], {'y': []}, ('a', []), {'x': 1}][k]      # malformed specs: the library fails with a WRAPPED plain exception


def cli_eq(tk: int, sk: int, a: int, b: int, indent: int, scalar: bool) -> bool:
    start()
    a, b = concretize(a, 0, 2), concretize(b, 0, 2)
    indent = concretize(indent, 0, 4)
    if a is OUT or b is OUT or indent is OUT:
        return True
    target, spec = mk_target(tk, a, b), mk_spec(sk)
    exp = run(lambda: glom(target, spec))
    rc, out = _stdout_of(lambda: cli.glom_cli(target, spec, indent, False, False, scalar))
    if exp.kind == 'err':
        reach('cli_err')
        if not isinstance(exp.exc, GlomError):
            return True
        name = type(exp.exc).__name__
        return (rc == 1 and out.startswith(name + ': ')) or fail(why='GlomError must give status 1 and name the error', rc=rc, out=out[:200])
    reach('cli_ok')
    from boltons.iterutils import is_scalar
    if scalar and is_scalar(exp.value):
        reach('cli_scalar')
        return (rc is None and out == str(exp.value)) or fail(why='scalar output', out=out, exp=exp.value)
    want = json.dumps(exp.value, indent=indent or None, sort_keys=True) + '\n'
    return (rc is None and out == want) or fail(why='stdout differs from json.dumps(glom(target, spec))', out=out, want=want)


class FakeStdin:
    def __init__(self, text, log):
        self.text, self.log = text, log
        self.closed = False

    def read(self):
        self.log.append('stdin')
        return self.text

    def isatty(self):
        return False


def source_select(has_spec: bool, has_target: bool, spec_file: int, target_file: int, dash: bool, tty: bool) -> bool:
    """spec_file / target_file: 0 absent, 1 readable, 2 unreadable.  Exactly the documented source is read."""
    start()
    log = []
    files = {'/spec.ok': "'a'", '/target.ok': '{"a": "from-file"}'}

    def fake_open(path, *a, **kw):
        log.append(('open', path))
        if path not in files:
            raise OSError(2, 'No such file', path)
        return io.StringIO(files[path])
    posargs = []
    if has_spec:
        posargs.append("'a'")
        if has_target:
            posargs.append('-' if dash else '{"a": "from-arg"}')
    sf = [None, '/spec.ok', '/spec.missing'][spec_file]
    tf = [None, '/target.ok', '/target.missing'][target_file]
    if dash and not (has_spec and has_target):
        tf = '-' if target_file == 0 else tf
    got = {}
    old = (cli.isatty, sys.stdin)
    import builtins
    old_open = builtins.open
    cli.isatty = lambda f: tty
    sys.stdin = FakeStdin('{"a": "from-stdin"}', log)
    cli.open = fake_open
    try:
        out = run(lambda: cli.mw_get_target(lambda spec, target: got.update(spec=spec, target=target), posargs, tf, 'json', sf, 'python'))
    finally:
        cli.isatty, sys.stdin = old
        del cli.open
    reach('source')
    # reference
    spec_given = has_spec
    if spec_given and sf:
        exp = 'usage'
    elif sf == '/spec.missing':
        exp = 'usage'
    else:
        target_text = posargs[1] if len(posargs) == 2 else None
        if target_text and tf:
            exp = 'usage'
        elif target_text == '-' or tf == '-':
            exp = 'from-stdin'
        elif tf == '/target.missing':
            exp = 'usage'
        elif tf == '/target.ok':
            exp = 'from-file'
        elif target_text:
            exp = 'from-arg'
        elif not tty:
            exp = 'from-stdin'
        else:
            exp = 'empty'
    if exp == 'usage':
        reach('usage')
        return (out.kind == 'err' and isinstance(out.exc, UsageError) and not got) or fail(why='expected a usage error', out=out, got=got, log=log)
    if out.kind != 'ok':
        return fail(why='unexpected error', out=out, exp=exp)
    if exp == 'empty':
        ok = got.get('target') == {} and 'stdin' not in log
    else:
        ok = got.get('target') == {'a': exp}
        reach(exp)
    # nothing else was read
    reads = [l for l in log if l == 'stdin' or (isinstance(l, tuple) and l[1].startswith('/target'))]
    if exp in ('from-arg', 'empty') and reads:
        return fail(why='an undocumented source was read', log=log, exp=exp)
    if exp == 'from-file' and 'stdin' in log:
        return fail(why='stdin read although a target file was given', log=log)
    if exp == 'from-stdin' and any(isinstance(l, tuple) and l[1].startswith('/target') for l in log):
        return fail(why='file read although stdin was selected', log=log)
    return ok or fail(why='wrong source', got=got, exp=exp, log=log)


ALPHA = '"\'[({_a1.l)'


def never_exec(s: str, fmt: int) -> bool:
    """symbolic spec text; python (default) and json formats only ever parse a literal"""
    start()
    calls = []

    class FakeAst:
        @staticmethod
        def literal_eval(x):
            calls.append(('lit', x))
            return 'LIT'

    class FakeJson:
        @staticmethod
        def loads(x):
            calls.append(('json', x))
            return 'JSON'

        dumps = staticmethod(json.dumps)
    import builtins
    old = (cli.ast, cli.json, cli._eval_python_full_spec, cli._compile_code, cli.mw_handle_target)
    cli.ast, cli.json = FakeAst, FakeJson
    cli._eval_python_full_spec = lambda x: calls.append(('FULL', x))
    cli._compile_code = lambda *a, **k: calls.append(('COMPILE', a))
    cli.mw_handle_target = lambda text, f: {}
    cli.compile = lambda *a, **k: calls.append(('compile', a))
    cli.exec = lambda *a, **k: calls.append(('exec', a))
    cli.eval = lambda *a, **k: calls.append(('eval', a))
    got = {}
    try:
        cli.mw_get_target(lambda spec, target: got.update(spec=spec), [s, '{}'], None, 'json', None, ['python', 'json'][fmt])
    finally:
        cli.ast, cli.json, cli._eval_python_full_spec, cli._compile_code, cli.mw_handle_target = old
        del cli.compile, cli.exec, cli.eval
    reach('never_exec')
    if any(c[0] in ('FULL', 'COMPILE', 'compile', 'exec', 'eval') for c in calls):
        return fail(why='an executing function was reached in a non-executing spec format', calls=calls)
    if len(calls) != 1:
        return fail(why='exactly one literal parse expected', calls=calls)
    kind, arg = calls[0]
    if fmt == 1:
        return (kind == 'json' and arg == s) or fail(calls=calls)
    if kind != 'lit':
        return fail(calls=calls)
    if s[0] in '"\'[{(':
        reach('as_literal')
        return arg == s or fail(why='literal text must be parsed as given', arg=arg, s=s)
    reach('as_path')
    return arg == repr(s) or fail(why='other text is taken as a path string (its repr is parsed)', arg=arg, s=s)


FLAG = []
HOSTILE = ['__import__("os").system("true")', 'FLAG.append(1)', '(lambda: FLAG.append(1))()', '[FLAG.append(1) for _ in [0]]',
           '{}.__class__.__mro__[1].__subclasses__()', 'T.__class__', '"a".__class__', '(FLAG.append(1), 2)',
           '[1, FLAG.append(1)]', "{'a': FLAG.append(1)}", 'print(1)', 'a.b(FLAG.append(1))', "f'{FLAG.append(1)}'",
           '"%s" % FLAG.append(1)', '1 if FLAG.append(1) else 2', '[*FLAG.append(1)]', 'globals()', "exec('FLAG.append(1)')"]


def hostile(i: int, fmt: int) -> bool:
    """texts with calls, attribute access, lambdas, comprehensions, dunder tricks through the REAL parser: never executed"""
    start()
    i = concretize(i, 0, len(HOSTILE) - 1)
    if i is OUT:
        return True
    del FLAG[:]
    text = HOSTILE[i]
    cli.FLAG = FLAG
    got = {}
    try:
        out = run(lambda: cli.mw_get_target(lambda spec, target: got.update(spec=spec), [text, '{}'], None, 'json', None,
                                            ['python', 'json'][fmt]))
    finally:
        del cli.FLAG
    reach('hostile')
    if FLAG:
        return fail(why='spec text was executed', text=text)
    if out.kind == 'ok':
        # taken as a path string or a plain literal: never an object produced by evaluation
        sp = got.get('spec')
        return isinstance(sp, (str, list, dict, tuple, int, float, type(None))) or fail(why='non-literal spec produced', sp=sp)
    return isinstance(out.exc, (ValueError, SyntaxError)) or fail(why='unexpected error class', out=out)


MALFORMED = object()
TARGET_TEXTS = [
    ('json', '{"a": [1, 2]}', {'a': [1, 2]}), ('json', '[1, "x", null]', [1, 'x', None]), ('json', '{"a": ', MALFORMED), ('json', "{'a': 1}", MALFORMED),
    ('json', '', {}), ('python', "{'a': (1, 2)}", {'a': (1, 2)}), ('python', '[1, None]', [1, None]), ('python', '{"a": f()}', MALFORMED),
    ('python', '__import__("os")', MALFORMED), ('python', '{1: ', MALFORMED), ('yaml', 'a: [1, 2]\nb: x', {'a': [1, 2], 'b': 'x'}), ('yml', 'a: 1', {'a': 1}),
    ('yaml', 'a: [1, 2', MALFORMED), ('yaml', '!!python/object/apply:os.system ["true"]', MALFORMED), ('toml', 'a = 1\n[t]\nb = "x"', {'a': 1, 't': {'b': 'x'}}),
    ('toml', 'a = ', MALFORMED), ('toml', 'a = 1\na = 2', MALFORMED), ('xml', '<a/>', MALFORMED), ('json', '1e999', float('inf')),
    ('json', '[]', []), ('json', '0', 0), ('json', 'false', False), ('json', '""', ''), ('json', 'null', None), ('python', '()', ()),
    ('yaml', '[]', []), ('python', '0', 0),
]


def target_formats(i: int) -> bool:
    """well-formed targets load to their value; malformed ones are usage errors, never a result"""
    start()
    i = concretize(i, 0, len(TARGET_TEXTS) - 1)
    if i is OUT:
        return True
    fmt, text, want = TARGET_TEXTS[i]
    out = run(lambda: cli.mw_handle_target(text, fmt))
    reach('formats')
    if want is MALFORMED:
        reach('malformed')
        return (out.kind == 'err' and isinstance(out.exc, UsageError)) or fail(why='malformed target must be a usage error', out=out, text=text)
    return (out.kind == 'ok' and out.value == want and type(out.value) is type(want)) or fail(out=out, want=want)


E2E = [
    (['glom', 'a.b', '{"a": {"b": 3}}'], None, 0, '3\n'),
    (['glom', '--indent', '0', '{"x": "a.b", "y": "c"}', '{"a": {"b": 1}, "c": [2]}'], None, 0, '{"x": 1, "y": [2]}\n'),
    (['glom', '--indent', '2', '["c", "a"]', '{"a": {"b": 1}, "c": [2]}'], None, 1, None),
    (['glom', 'a.zz', '{"a": {}}'], None, 1, 'PathAccessError'),
    (['glom', '--scalar', 'a', '{"a": "txt"}'], None, 0, 'txt'),
    (['glom', 'a', '-'], '{"a": 5}', 0, '5\n'),
    (['glom', 'a'], '{"a": 6}', 0, '6\n'),
    (['glom', '--target-format', 'python', 'a', "{'a': (1, 2)}"], None, 0, '[\n  1,\n  2\n]\n'),
    (['glom', '--target-format', 'yaml', 'a', 'a: [1]'], None, 0, '[\n  1\n]\n'),
    (['glom', '--target-format', 'toml', 't.b', 'a = 1\n[t]\nb = "x"'], None, 0, '"x"\n'),
    (['glom', '--spec-format', 'json', '{"k": "a"}', '{"a": 1}'], None, 0, '{\n  "k": 1\n}\n'),
    (['glom', '--target-file', 'TFILE', 'a'], None, 0, '7\n'),
    (['glom', '--spec-file', 'SFILE', '--target-file', 'TFILE'], None, 0, '7\n'),
    (['glom', '--target-file', '/nonexistent/x', 'a'], None, 'usage', None),
    (['glom', '--spec-file', 'SFILE', 'a', '{}'], None, 'usage', None),
    (['glom', 'a', '{"a": '], None, 'usage', None),
    (['glom', '--target-format', 'nope', 'a', '{}'], None, 'usage', None),
    (['glom', '--spec-format', 'nope', 'a', '{}'], None, 'usage', None),
    (['glom', '--spec-format', 'python-full', 'T["a"]', '{"a": 8}'], None, 0, '8\n'),
    (['glom', '--indent', '4', 'T["a"]', '{"a": 8}'], None, 1, 'PathAccessError'),
    (['glom', '--indent', '0', '{"t": ()}', '[]'], None, 0, '{"t": []}\n'),
    (['glom', '--indent', '0', '', '0'], None, 0, '0\n'),
]


def end_to_end(i: int) -> bool:
    """cli.main(argv) through face, argv / file / stdin channels"""
    start()
    i = concretize(i, 0, len(E2E) - 1)
    if i is OUT:
        return True
    argv, stdin_text, want_rc, want_out = E2E[i]
    d = '/var/tmp/vkit-c19-%d' % os.getpid()       # (tempfile uses random, which the engine makes symbolic)
    os.makedirs(d, exist_ok=True)
    tfile, sfile = os.path.join(d, 't.json'), os.path.join(d, 's.txt')
    with open(tfile, 'w') as f:
        f.write('{"a": 7}')
    with open(sfile, 'w') as f:
        f.write("'a'")
    argv = [tfile if a == 'TFILE' else sfile if a == 'SFILE' else a for a in argv]
    old = sys.stdin
    sys.stdin = io.StringIO(stdin_text) if stdin_text is not None else FakeTTY()
    buf, ebuf = io.StringIO(), io.StringIO()
    try:
        with contextlib.redirect_stdout(buf), contextlib.redirect_stderr(ebuf):
            try:
                rc = cli.main(argv)
            except SystemExit as se:
                rc = ('exit', se.code)
            except UsageError:
                rc = 'usage'
    finally:
        sys.stdin = old
        for p in (tfile, sfile):
            os.unlink(p)
        os.rmdir(d)
    out = buf.getvalue()
    reach('e2e')
    if want_rc == 'usage':
        ok = rc == 'usage' or (isinstance(rc, tuple) and rc[1] not in (0, None)) or (isinstance(rc, int) and rc not in (0, 1))
        return (ok and not out.strip().startswith(('{', '[', '"'))) or fail(why='usage error expected, no result printed', rc=rc, out=out, err=ebuf.getvalue()[:300])
    if rc != want_rc:
        return fail(why='exit status', rc=rc, want=want_rc, out=out, err=ebuf.getvalue()[:300])
    if want_out is None:
        return True
    if want_rc == 1:
        return out.startswith(want_out + ': ') or fail(why='error output', out=out[:200])
    return out == want_out or fail(why='output', out=out, want=want_out)


class FakeTTY:
    closed = False

    def isatty(self):
        return True

    def read(self):
        return ''

    def fileno(self):
        raise OSError('no fileno')


def obligations(tier):
    q = tier == 'quick'
    obs = []
    for tk in range(NT):
        obs.append(Ob(cli_eq, fixed={'tk': tk}, pre='0 <= sk < %d and 0 <= a <= 2 and 0 <= b <= 2 and 0 <= indent <= 4' % NS
                      if not q else '0 <= sk < %d and 0 <= a <= 1 and 0 <= b <= 1 and (indent == 0 or indent == 2 or indent == 3)' % NS,
                      name='cli_eq_t%d' % tk, timeout=200))
    for sf in range(3):
        for tf in range(3):
            obs.append(Ob(source_select, fixed={'spec_file': sf, 'target_file': tf}, name='source_select_s%d_t%d' % (sf, tf)))
    n = 2 if q else 3
    alpha_pre = 'all(c in %r for c in s)' % ALPHA
    for fmt in (0, 1):
        obs.append(Ob(never_exec, fixed={'fmt': fmt}, pre='1 <= len(s) <= %d and %s' % (n, alpha_pre), name='never_exec_f%d' % fmt,
                      timeout=300 if q else 3000, path_timeout=60))
    obs.append(Ob(hostile, pre='0 <= i < %d and 0 <= fmt <= 1' % len(HOSTILE), name='hostile'))
    obs.append(Ob(target_formats, pre='0 <= i < %d' % len(TARGET_TEXTS), name='target_formats'))
    ne = 10 if q else len(E2E)
    step = 4
    for lo in range(0, ne, step):
        obs.append(Ob(end_to_end, pre='%d <= i < %d' % (lo, min(lo + step, ne)), name='end_to_end_%d' % lo, timeout=300, path_timeout=100))
    if q:
        obs.append(Ob(end_to_end, pre='(i == 11 or i == 13 or i == 15 or i == 18 or i == 20 or i == 21)', name='end_to_end_files', timeout=300, path_timeout=100))
    obs.append(Ob(cli_eq, fixed={'tk': 0}, pre='0 <= sk < %d and 0 <= a <= 1 and 0 <= b <= 1 and (indent == 0 or indent == 2)' % NS, twin='cli_err', name='cli_eq_t0'))
    obs.append(Ob(cli_eq, fixed={'tk': 0}, pre='0 <= sk < %d and 0 <= a <= 1 and 0 <= b <= 1 and (indent == 0 or indent == 2)' % NS, twin='cli_scalar', name='cli_eq_t0'))
    obs.append(Ob(source_select, fixed={'spec_file': 0, 'target_file': 0}, twin='from-stdin', name='source_select_00'))
    obs.append(Ob(source_select, fixed={'spec_file': 0, 'target_file': 1}, twin='usage', name='source_select_01'))
    obs.append(Ob(never_exec, fixed={'fmt': 0}, pre='1 <= len(s) <= 2 and %s' % alpha_pre, twin='as_literal', name='never_exec_f0'))
    obs.append(Ob(never_exec, fixed={'fmt': 0}, pre='1 <= len(s) <= 2 and %s' % alpha_pre, twin='as_path', name='never_exec_f0'))
    obs.append(Ob(target_formats, pre='0 <= i < %d' % len(TARGET_TEXTS), twin='malformed', name='target_formats'))
    return obs
