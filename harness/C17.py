"""C17 -- Iter pipelines equal the itertools composition, stay lazy, never mutate specs."""
import itertools
from typing import List

from boltons.iterutils import chunked_iter, windowed_iter, split_iter, unique_iter, first
from glom import glom, T, Iter, SKIP, STOP, Invoke, Spec, GlomError

from vkit.common import start, reach, fail, known_open, concretize, OUT, run
from vkit.ob import Ob
import vkit.stubs  # noqa: F401

META = {
    'explanation': 'Iter() pipelines built from a decision sequence of stage kinds are evaluated by the real Iter.glomit '
                   'on symbolic lists and compared with the same composition written with map/filter/islice/takewhile/'
                   'dropwhile/chunked_iter/windowed_iter/split_iter/unique_iter/chain applied in chaining order; the base '
                   'stage produces SKIP/STOP/the sentinel at symbolic positions; laziness is checked by counting pulls '
                   'from an instrumented infinite source; builder calls must leave the receiver unchanged.',
    'bounds': {
        'quick': {'stage sequence length': '<= 2 (all 11x11 pairs), 3 with a fixed first stage subset',
                  'source': 'symbolic list len <= 3, unbounded ints (finite domain 0..2 where elements are hashed: '
                            'unique/split)', 'slice/chunk/window sizes': 'small constants', 'k (lazy)': '0..3',
                  'lazy thresholds': '-1..3'},
        'thorough': {'stage sequence length': '<= 3 (all), 4 restricted', 'source': 'len <= 4'},
    },
    'stubs': ['S3 glom_debug=True', 'S4 state reset'],
    'outside_claim': ['stage parameters other than the listed constants', 'sources that raise mid-iteration'],
    'assumptions': ['SKIP/STOP/sentinel are honoured by the Iter(subspec, sentinel=) base stage and are ordinary values '
                    'for a chained .map(), as with the builtin map (DESIGN.md C17)'],
}

NST = 11
STAGE_NAMES = ['map', 'filter', 'slice2', 'takewhile', 'dropwhile', 'chunked2', 'windowed2', 'split0', 'unique',
               'flatten', 'slice13']
HASHING = (7, 8)


def add_stage(it, kind, a, thr):
    """chain stage `kind` on an Iter spec"""
    if kind == 0:
        return it.map(lambda v: v * 2 - a)
    if kind == 1:
        return it.filter(lambda v: v > thr)
    if kind == 2:
        return it.slice(2)
    if kind == 3:
        return it.takewhile(lambda v: v < thr)
    if kind == 4:
        return it.dropwhile(lambda v: v < thr)
    if kind == 5:
        return it.chunked(2)
    if kind == 6:
        return it.windowed(2)
    if kind == 7:
        return it.split(0)
    if kind == 8:
        return it.unique()
    if kind == 9:
        return it.flatten()
    return it.slice(1, 3)


def ref_stage(src, kind, a, thr):
    """the equivalent plain-Python stage"""
    if kind == 0:
        return map(lambda v: v * 2 - a, src)
    if kind == 1:
        return filter(lambda v: v > thr, src)
    if kind == 2:
        return itertools.islice(src, 2)
    if kind == 3:
        return itertools.takewhile(lambda v: v < thr, src)
    if kind == 4:
        return itertools.dropwhile(lambda v: v < thr, src)
    if kind == 5:
        return chunked_iter(src, 2)
    if kind == 6:
        return windowed_iter(src, 2)
    if kind == 7:
        return split_iter(src, 0)
    if kind == 8:
        return unique_iter(src)
    if kind == 9:
        return itertools.chain.from_iterable(src)
    return itertools.islice(src, 1, 3)


SENT = object()


def _base(kind, a, b):
    """base stage: (Iter spec, reference generator function)"""
    if kind == 0:
        return Iter(), (lambda xs: iter(xs))
    if kind == 1:
        f = lambda x: SKIP if x == a else (STOP if x == b else x + 1)

        def ref(xs):
            for x in xs:
                y = f(x)
                if y is SKIP:
                    continue
                if y is STOP:
                    return
                yield y
        return Iter(f), ref
    if kind == 2:
        f = lambda x: SENT if x == a else x

        def ref(xs):
            for x in xs:
                if x == a:
                    return
                yield x
        return Iter(f, sentinel=SENT), ref
    if kind == 4:
        # an explicit sentinel AND a STOP produced by the sub-spec: whichever comes first ends the stream (SKIP still skips)
        f = lambda x: SENT if x == a else (STOP if x == b else (SKIP if x == a + b else x))

        def ref4(xs):
            for x in xs:
                if x == a or x == b:
                    return
                if x == a + b:
                    continue
                yield x
        return Iter(f, sentinel=SENT), ref4
    # sentinel given as a plain value that occurs in the stream
    def ref3(xs):
        for x in xs:
            if x == a:
                return
            yield x
    return Iter(lambda x: None if x == a else x, sentinel=None), ref3


def _run_pipeline(base, kinds, xs, a, b, thr):
    it, bref = _base(base, a, b)
    for k in kinds:
        it = add_stage(it, k, a, thr)

    def ref():
        src = bref(xs)
        for k in kinds:
            src = ref_stage(src, k, a, thr)
        return list(src)
    got = run(lambda: glom(xs, it.all(), glom_debug=True))
    exp = run(ref)
    if got.kind != exp.kind:
        return fail(why='outcome kind', got=got, exp=exp, kinds=kinds, xs=xs)
    if got.kind == 'err':
        reach('pipe_err')
        return type(got.exc) is type(exp.exc) or fail(why='error class', got=got, exp=exp)
    reach('pipe_ok')
    if len(exp.value) > 0:
        reach('pipe_nonempty')
    return got.value == exp.value or fail(why='value', got=got.value, exp=exp.value, kinds=kinds, xs=xs, a=a, thr=thr)


def _prep(xs, kinds):
    if any(k in HASHING for k in kinds):
        xs = [concretize(x, 0, 2) for x in xs]
        if any(x is OUT for x in xs):
            return None
    return xs


def pipe1(base: int, c0: int, xs: List[int], a: int, b: int, thr: int) -> bool:
    start()
    xs = _prep(xs, [c0])
    if xs is None:
        return True
    return _run_pipeline(base, [c0], xs, a, b, thr)


def pipe2(base: int, c0: int, c1: int, xs: List[int], a: int, b: int, thr: int) -> bool:
    start()
    xs = _prep(xs, [c0, c1])
    if xs is None:
        return True
    return _run_pipeline(base, [c0, c1], xs, a, b, thr)


def pipe3(base: int, c0: int, c1: int, c2: int, xs: List[int], a: int, b: int, thr: int) -> bool:
    start()
    xs = _prep(xs, [c0, c1, c2])
    if xs is None:
        return True
    return _run_pipeline(base, [c0, c1, c2], xs, a, b, thr)


def pipe4(base: int, c0: int, c1: int, c2: int, c3: int, xs: List[int], a: int, b: int, thr: int) -> bool:
    start()
    xs = _prep(xs, [c0, c1, c2, c3])
    if xs is None:
        return True
    return _run_pipeline(base, [c0, c1, c2, c3], xs, a, b, thr)


# ---- a per-element failure inside a stage: the consumer may catch it and keep pulling, exactly as with map()/filter() ---
class StageBoom(Exception):
    pass


def _guarded(f, bad):
    def g(v):
        if v == bad:
            raise StageBoom(v)
        return f(v)
    return g


def _stage_pair(kind, a, thr, bad):
    """(Iter method application, plain-Python stage) whose user callable raises for the element `bad`"""
    f = [_guarded(lambda v: v * 2 - a, bad), _guarded(lambda v: v > thr, bad), None, _guarded(lambda v: v < thr, bad),
         _guarded(lambda v: v < thr, bad)][kind] if kind in (0, 1, 3, 4) else None
    if kind == 0:
        return (lambda it: it.map(f)), (lambda src: map(f, src))
    if kind == 1:
        return (lambda it: it.filter(f)), (lambda src: filter(f, src))
    if kind == 3:
        return (lambda it: it.takewhile(f)), (lambda src: itertools.takewhile(f, src))
    if kind == 4:
        return (lambda it: it.dropwhile(f)), (lambda src: itertools.dropwhile(f, src))
    return (lambda it: add_stage(it, kind, a, thr)), (lambda src: ref_stage(src, kind, a, thr))


def _drain(stream, n):
    events = []
    for _ in range(n):
        try:
            events.append(('v', next(stream)))
        except StopIteration:
            events.append('stop')
            break
        except StageBoom:
            events.append('boom')
    return events


def resume(c0: int, c1: int, xs: List[int], bad: int, a: int, thr: int) -> bool:
    start()
    c0, c1 = concretize(c0, 0, 6), concretize(c1, 0, 6)
    if c0 is OUT or c1 is OUT:
        return True
    g0, r0 = _stage_pair(c0, a, thr, bad)
    g1, r1 = _stage_pair(c1, a, thr, bad)
    stream = run(lambda: glom(list(xs), g1(g0(Iter())), glom_debug=True))
    ref = run(lambda: r1(r0(iter(list(xs)))))
    if stream.kind != 'ok' or ref.kind != 'ok':
        return stream.kind == ref.kind or fail(why='construction', got=stream, exp=ref)
    got, exp = _drain(stream.value, len(xs) + 3), _drain(ref.value, len(xs) + 3)
    reach('resume')
    if 'boom' in exp and exp[-1] != 'boom' and exp.index('boom') < len(exp) - 2:
        reach('resumed_after_boom')
    return got == exp or fail(why='after a per-element failure the stream continues as the plain composition does', got=got, exp=exp, c0=c0, c1=c1)


def first_eq(which: int, xs: List[int], thr: int, d: int) -> bool:
    """first() terminates with the first truthy / matching element or the default"""
    start()
    if which == 0:
        got, exp = glom(xs, Iter().first(), glom_debug=True), first(xs)
    elif which == 1:
        got, exp = glom(xs, Iter().first(lambda v: v > thr), glom_debug=True), first(xs, key=lambda v: v > thr)
    elif which == 2:
        got = glom(xs, Iter().first(lambda v: v > thr, default=d), glom_debug=True)
        exp = first(xs, key=lambda v: v > thr, default=d)
    else:
        got = glom(xs, Iter().filter(lambda v: v != thr).map(lambda v: v - thr).first(lambda v: v > 0, default=d), glom_debug=True)
        exp = first((v - thr for v in xs if v != thr), key=lambda v: v > 0, default=d)
    reach('first')
    return got == exp or fail(got=got, exp=exp)


class Src:
    """instrumented infinite source 0, 1, 2, ..."""
    def __init__(self):
        self.pulled = 0

    def __iter__(self):
        return self

    def __next__(self):
        self.pulled += 1
        return self.pulled - 1


LAZY_KINDS = [0, 1, 2, 4, 5, 6, 10]      # stages that terminate on an infinite increasing source


def lazy(c0: int, c1: int, k: int, a: int, thr: int) -> bool:
    start()
    a, thr, k = concretize(a, -1, 3), concretize(thr, -1, 3), concretize(k, 0, 3)
    if a is OUT or thr is OUT or k is OUT:
        return True
    s1, s2 = Src(), Src()
    it = Iter()
    for c in (c0, c1):
        it = add_stage(it, c, a, thr)

    def build_ref():
        src = iter(s2)
        for c in (c0, c1):
            src = ref_stage(src, c, a, thr)
        return src
    stream = run(lambda: glom(s1, it, glom_debug=True))
    src = run(build_ref)
    if stream.kind != src.kind:
        return fail(why='construction outcome', got=stream, exp=src)
    if stream.kind == 'err':
        return type(stream.exc) is type(src.exc) or fail(why='construction error class')
    if s1.pulled != s2.pulled:
        return fail(why='building the pipeline pulled more/less than the reference composition', p1=s1.pulled, p2=s2.pulled)
    got = run(lambda: list(itertools.islice(stream.value, k)))
    exp = run(lambda: list(itertools.islice(src.value, k)))
    reach('lazy')
    if got.kind != exp.kind:
        return fail(why='outcome kind', got=got, exp=exp)
    if got.kind == 'err':
        return type(got.exc) is type(exp.exc) or fail(why='error class', got=got, exp=exp)
    if k > 0:
        reach('lazy_pulled')
    return (got.value == exp.value and s1.pulled == s2.pulled) or fail(got=got, exp=exp, p1=s1.pulled, p2=s2.pulled)


def lazy_first(which: int, thr: int) -> bool:
    start()
    thr = concretize(thr, -1, 4)
    if thr is OUT:
        return True
    s1 = Src()
    if which == 0:
        got = glom(s1, Iter().first(lambda v: v > thr), glom_debug=True)
        exp, pulls = max(thr + 1, 0), max(thr + 1, 0) + 1
    else:
        got = glom(s1, Iter().filter(lambda v: v % 2).first(lambda v: v > thr), glom_debug=True)
        e = max(thr + 1, 1)
        e = e if e % 2 else e + 1
        exp, pulls = e, e + 1
    reach('lazy_first')
    return (got == exp and s1.pulled == pulls) or fail(got=got, exp=exp, pulled=s1.pulled, pulls=pulls)


# ---- builders never alter the spec they are called on ---------------------------------------------
def _iter_builder_step(it, kind):
    return [lambda i: i.map(T), lambda i: i.filter(T), lambda i: i.slice(1), lambda i: i.limit(2),
            lambda i: i.takewhile(T), lambda i: i.dropwhile(T), lambda i: i.chunked(2), lambda i: i.windowed(2),
            lambda i: i.split(), lambda i: i.unique(), lambda i: i.flatten(), lambda i: i.all(), lambda i: i.first()][kind](it)


def builders_iter(b0: int, b1: int, b2: int) -> bool:
    start()
    xs = [0, 1, 2, 1, 0, 3]
    prefix = _iter_builder_step(Iter(), b0)
    if not isinstance(prefix, Iter):
        return True
    snap_repr, snap_stack = repr(prefix), list(prefix._iter_stack)
    before = run(lambda: glom(xs, prefix.all(), glom_debug=True))
    ext1 = _iter_builder_step(prefix, b1)          # extend the prefix ...
    ext2 = _iter_builder_step(prefix, b2)          # ... twice, independently
    after = run(lambda: glom(xs, prefix.all(), glom_debug=True))
    reach('builders_iter')
    if ext1 is prefix or ext2 is prefix:
        return fail(why='builder returned the receiver')
    if repr(prefix) != snap_repr or prefix._iter_stack != snap_stack:
        return fail(why='prefix altered', before=snap_repr, after=repr(prefix))
    if before.kind != after.kind or (before.kind == 'ok' and before.value != after.value):
        return fail(why='prefix behaviour changed', before=before, after=after)
    # the two extensions behave like freshly built pipelines
    for ext, b in ((ext1, b1), (ext2, b2)):
        fresh = _iter_builder_step(_iter_builder_step(Iter(), b0), b)
        if repr(fresh) != repr(ext):
            return fail(why='extension differs from fresh build', ext=repr(ext), fresh=repr(fresh))
    return True


def builders_invoke(b0: int, b1: int, b2: int, x: int, y: int) -> bool:
    start()
    def rec(*a, **kw):
        return (a, tuple(sorted(kw.items())))

    def step(inv, kind):
        return [lambda i: i.constants(1), lambda i: i.constants(k=2), lambda i: i.specs(T['x']),
                lambda i: i.specs(k=T['y']), lambda i: i.star(args=T['l']), lambda i: i.star(kwargs=T['d']),
                lambda i: i.constants(3, k=4)][kind](inv)
    t = {'x': x, 'y': y, 'l': [x, y], 'd': {'z': y}}
    prefix = step(Invoke(rec), b0)
    snap = (repr(prefix), prefix._args, dict(prefix._cur_kwargs))
    before = glom(t, prefix, glom_debug=True)
    e1, e2 = step(prefix, b1), step(prefix, b2)
    after = glom(t, prefix, glom_debug=True)
    reach('builders_invoke')
    if e1 is prefix or e2 is prefix:
        return fail(why='builder returned the receiver')
    if (repr(prefix), prefix._args, dict(prefix._cur_kwargs)) != snap or before != after:
        return fail(why='prefix altered', snap=snap, now=repr(prefix))
    fresh = step(step(Invoke(rec), b0), b1)
    return glom(t, fresh, glom_debug=True) == glom(t, e1, glom_debug=True) or fail(why='extension differs from fresh')


def obligations(tier):
    q = tier == 'quick'
    L = 3 if q else 4
    obs = []
    rng = 'len(xs) <= %d' % L
    for base in range(5):
        if base in (1, 4):
            for c0 in range(NST):
                obs.append(Ob(pipe1, fixed={'base': base, 'c0': c0}, pre=rng, name='pipe1_b%d_%s' % (base, STAGE_NAMES[c0])))
            continue
        obs.append(Ob(pipe1, fixed={'base': base}, pre='0 <= c0 < %d and %s' % (NST, rng), name='pipe1_b%d' % base))
    for c0 in range(NST):
        obs.append(Ob(pipe2, fixed={'base': 0, 'c0': c0}, pre='0 <= c1 < %d and %s' % (NST, rng), name='pipe2_%s_any' % STAGE_NAMES[c0], timeout=150))
    for base in (1, 2, 3):
        for c0 in ([0, 1, 5, 8] if q else range(NST)):
            if base == 1:
                for c1 in ([1, 2, 6, 9] if q else range(NST)):
                    obs.append(Ob(pipe2, fixed={'base': base, 'c0': c0, 'c1': c1}, pre='len(xs) <= %d' % (L if not q else 2),
                                  name='pipe2_b1_%s_%s' % (STAGE_NAMES[c0], STAGE_NAMES[c1])))
                continue
            obs.append(Ob(pipe2, fixed={'base': base, 'c0': c0}, pre='0 <= c1 < %d and len(xs) <= %d' % (NST, 2 if q else L),
                          name='pipe2_b%d_%s_any' % (base, STAGE_NAMES[c0])))
    if q:
        for c0 in (0, 1, 5, 6):
            for c1 in (1, 3, 9, 10):
                obs.append(Ob(pipe3, fixed={'base': 0, 'c0': c0, 'c1': c1}, pre='0 <= c2 < %d and len(xs) <= 3' % NST,
                              name='pipe3_%s_%s_any' % (STAGE_NAMES[c0], STAGE_NAMES[c1]), timeout=150))
    else:
        for c0 in range(NST):
            for c1 in range(NST):
                obs.append(Ob(pipe3, fixed={'base': 0, 'c0': c0, 'c1': c1}, pre='0 <= c2 < %d and len(xs) <= 3' % NST,
                              name='pipe3_%s_%s_any' % (STAGE_NAMES[c0], STAGE_NAMES[c1])))
        for c0 in (0, 1, 5):                  # sized: length-4 pipelines over 18 representative prefixes, sources up to 2 items
            for c1 in (1, 3):
                for c2 in (0, 2, 8):
                    obs.append(Ob(pipe4, fixed={'base': 1, 'c0': c0, 'c1': c1, 'c2': c2}, pre='0 <= c3 < %d and len(xs) <= 2' % NST,
                                  name='pipe4_%s_%s_%s_any' % (STAGE_NAMES[c0], STAGE_NAMES[c1], STAGE_NAMES[c2])))
    for w in range(4):
        obs.append(Ob(first_eq, fixed={'which': w}, pre=rng, name='first_eq_%d' % w))
    lk = '(' + ' or '.join('c1 == %d' % k for k in LAZY_KINDS + [9]) + ')'       # flatten (9) as a second stage
    for c0 in LAZY_KINDS:
        obs.append(Ob(lazy, fixed={'c0': c0}, pre=lk + ' and 0 <= k <= 3 and -1 <= a <= 3 and -1 <= thr <= 3',
                      name='lazy_%s_any' % STAGE_NAMES[c0], timeout=150))
    for c0 in (0, 1, 3, 4):
        obs.append(Ob(resume, fixed={'c0': c0}, pre='0 <= c1 <= 6 and %s' % rng, name='resume_%s_any' % STAGE_NAMES[c0], timeout=150))
    obs.append(Ob(resume, fixed={'c0': 0}, pre='0 <= c1 <= 6 and %s' % rng, twin='resumed_after_boom', name='resume_map_any'))
    for w in range(2):
        obs.append(Ob(lazy_first, fixed={'which': w}, pre='-1 <= thr <= 4', name='lazy_first_%d' % w))
    for b0 in range(11):
        for b2 in ([3] if q else range(13)):
            obs.append(Ob(builders_iter, fixed={'b0': b0, 'b2': (b0 + b2) % 13}, pre='0 <= b1 <= 12',
                          name='builders_iter_%d_%d' % (b0, b2)))
    for b0 in range(7):
        obs.append(Ob(builders_invoke, fixed={'b0': b0}, pre='0 <= b1 <= 6 and 0 <= b2 <= 6', name='builders_invoke_%d' % b0))
    obs.append(Ob(pipe2, fixed={'base': 1, 'c0': 1, 'c1': 0}, pre=rng, twin='pipe_nonempty', name='pipe2_b1_filter'))
    obs.append(Ob(pipe2, fixed={'base': 0, 'c0': 9}, pre='0 <= c1 < %d and %s' % (NST, rng), twin='pipe_err', name='pipe2_flatten'))
    obs.append(Ob(lazy, fixed={'c0': 1}, pre=lk + ' and 0 <= k <= 3 and -1 <= a <= 3 and -1 <= thr <= 3', twin='lazy_pulled', name='lazy_filter'))
    obs.append(Ob(builders_iter, fixed={'b0': 0, 'b2': 3}, pre='0 <= b1 <= 12', twin='builders_iter', name='builders_iter_0'))
    obs.append(Ob(builders_invoke, fixed={'b0': 0}, pre='0 <= b1 <= 6 and 0 <= b2 <= 6', twin='builders_invoke', name='builders_invoke_0'))
    return obs
