"""C12 -- delete removes exactly the addressed element, or nothing."""
import copy
from typing import List

from glom import glom, delete, Delete, Path, T, S, Val, GlomError, PathAccessError
from glom.mutation import PathDeleteError

from harness.mutlib import (SEGS, NFAM, FAMILIES, family, plain, ids, ref_delete, spell, pick_segs, Obj, Boom, MyDict, MyList, ragged, ragged_path)
from vkit.common import start, reach, fail, known_open, concretize, OUT, run
from vkit.ob import Ob
import vkit.stubs  # noqa: F401

META = {
    'explanation': 'delete()/Delete are run on the same 13 target families as C11 with every 1-3 segment path over the segment '
                   'alphabet in four addressing styles, ignore_missing on and off, symbolic list contents and indices, and '
                   'through wildcards, and compared with Python del on a deep copy: same object returned, resulting structure '
                   '(later items shift), PathDeleteError for a missing final element, PathAccessError for a missing parent, '
                   'silence under ignore_missing, target unchanged in every failing case.',
    'bounds': {
        'quick': {'path length': '1-3 over 5 segment texts', 'list length': '<= 3', 'indices and leaves': 'unbounded symbolic ints',
                  'wildcards': '1-3 per path over ragged containers with 0-2 children per level (3^3 size patterns), key / index / attribute final segment, three addressing styles'},
        'thorough': {'path length': '1-3 over 8 segment texts', 'list length': '<= 4'},
    },
    'stubs': ['S3 glom_debug=True', 'S4 state reset'],
    'outside_claim': ['error class for deletion faults (tuple parent, raising __delitem__): only "del effect, or error/ignore with '
                      'the target unchanged" is asserted', 'user-registered delete handlers (C13)'],
    'assumptions': [],
}


def _delete_case(t, path, steps, ignore):
    snap, before = plain(t), ids(t)
    exp = ref_delete(t, steps, ignore)
    got = run(lambda: glom(t, Delete(path, ignore_missing=ignore), glom_debug=True))
    if got.kind == 'err':
        reach('delete_err')
        if plain(t) != snap or ids(t) != before:
            return fail(why='failed delete modified the target', t=t, snap=snap, err=got)
        if exp[0] == 'ok':
            return fail(why='delete raised but Python del works / ignore_missing given', err=got, steps=steps, ignore=ignore, t=t)
        cls = 'PathDeleteError' if type(got.exc) is PathDeleteError else ('PathAccessError' if type(got.exc) is PathAccessError else 'other')
        if exp[1] == 'other':
            return True           # deletion fault: any error with the target unchanged
        if cls == 'PathDeleteError':
            reach('pde')
        return cls == exp[1] or fail(why='error class', got=got, exp=exp, steps=steps)
    reach('delete_ok')
    if got.value is not t:
        return fail(why='must return the same object')
    if exp[0] != 'ok':
        if exp[1] == 'other' and plain(t) == snap and ignore:
            return True           # fault ignored under ignore_missing, target unchanged
        return fail(why='delete succeeded but reference fails', exp=exp, t=t, steps=steps, ignore=ignore)
    if plain(t) != exp[1]:
        return fail(why='effect differs from Python del', t=t, exp=exp[1], steps=steps)
    if plain(t) != snap:
        reach('deleted')
    elif ignore:
        reach('ignored')
    return True


def delete_path(fam: int, style: int, n: int, c0: int, c1: int, c2: int, ignore: bool, w: int) -> bool:
    start()
    segs = pick_segs([c0, c1, c2][:n])
    path, steps = spell(segs, style)
    t = family(fam, w)
    return _delete_case(t, path, steps, ignore)


def delete_list_idx(style: int, xs: List[int], i: int, ignore: bool, nested: bool) -> bool:
    """symbolic list and index: later items shift, nothing else changes"""
    start()
    t = {'a': [xs, 0] if nested else xs, 'z': [1]}
    before = list(xs)
    if nested:
        path = [Path('a', 0, i), T['a'][0][i], Path('a', '0', i)][style]
    else:
        path = [Path('a', i), T['a'][i], Path(T['a'], i)][style]
    got = run(lambda: glom(t, Delete(path, ignore_missing=ignore), glom_debug=True))
    inr = -len(before) <= i < len(before)
    if got.kind == 'err':
        reach('idx_err')
        ok = (not inr) and (not ignore) and list(xs) == before and type(got.exc) is PathDeleteError
        return ok or fail(why='error', got=got, i=i, before=before, xs=xs)
    if not inr:
        reach('idx_ignored')
        return (ignore and list(xs) == before) or fail(why='out of range delete accepted', i=i)
    reach('idx_ok')
    exp = list(before)
    del exp[i]
    return (got.value is t and list(xs) == exp and (t['a'][0] if nested else t['a']) is xs) or fail(xs=xs, exp=exp)


def delete_wild(shape: int, n: int, ignore: bool, a: int, b: int) -> bool:
    """through wildcards at every match"""
    start()
    kids = [{'v': a, 'k': 1}, {'v': b}, {'v': a + b, 'k': 2}][:n]
    if shape == 0:
        t, path = {'xs': kids}, 'xs.*.v'
    elif shape == 1:
        t, path = {'p': {'q': kids}}, Path('p', 'q', T.__star__(), 'v')
    elif shape == 2:
        t, path = {'m': dict(('k%d' % i, k) for i, k in enumerate(kids))}, 'm.*.v'
    elif shape == 3:
        t, path = {'g': [kids[:1], kids[1:]]}, 'g.*.*.v'
    else:
        t, path = {'xs': kids}, 'xs.*.k'          # present only in some entries
    got = run(lambda: glom(t, Delete(path, ignore_missing=ignore), glom_debug=True))
    reach('wild')
    if shape == 4:
        missing_some = any('k' not in k for k in [{'v': a, 'k': 1}, {'v': b}, {'v': a + b, 'k': 2}][:n])
        if missing_some and not ignore:
            return got.kind == 'err' or fail(why='missing entry must raise without ignore_missing', got=got)
        return (got.kind == 'ok' and all('k' not in k for k in kids) and all('v' in k for k in kids)) or fail(got=got, kids=kids)
    if got.kind != 'ok':
        return fail(why='wildcard delete failed', got=got)
    if n > 1:
        reach('wild_many')
    return all('v' not in k for k in kids) or fail(why='not every match deleted', kids=kids)


def delete_wild_sizes(nw: int, final: int, style: int, s0: int, s1: int, s2: int, ignore: bool, a: int) -> bool:
    """1-3 wildcards over ragged containers (empty ones included): the element is removed at EVERY match, nothing else
    changes, and when there is no match at all the delete is a no-op, not an error"""
    start()
    nw, final, style = concretize(nw, 1, 3), concretize(final, 0, 2), concretize(style, 0, 2)
    s0, s1, s2 = concretize(s0, 0, 2), concretize(s1, 0, 2), concretize(s2, 0, 2)
    if OUT in (nw, final, style, s0, s1, s2):
        return True
    t, leaves = ragged(nw, [s0, s1, s2], final, a)
    before = [copy.deepcopy(l) for l in leaves]
    got = run(lambda: glom(t, Delete(ragged_path(nw, final, style), ignore_missing=ignore), glom_debug=True))
    reach('wild_sizes')
    if not leaves:
        reach('wild_no_match')
    if len(leaves) > 2:
        reach('wild_many_leaves')
    if got.kind != 'ok' or got.value is not t:
        return fail(why='wildcard delete must succeed and return the target', got=got, n=len(leaves))
    for lf, b in zip(leaves, before):
        if final == 0:
            ok = 'v' not in lf and lf.get('keep') == b['keep'] and len(lf) == 1
        elif final == 1:
            ok = lf == b[1:]
        else:
            ok = not hasattr(lf, 'v') and lf.keep == b.keep
        if not ok:
            return fail(why='not deleted at every match (or something else changed)', leaf=lf, before=b, n=len(leaves))
    return True


class _Box:
    """a container type nothing is registered for by default: only a Glommer that registers it can look inside"""
    __slots__ = ('inner',)

    def __init__(self, inner):
        self.inner = inner


def delete_ctx(kind: int, xs: List[int], k: int, ignore: bool) -> bool:
    """the parent of the element is looked up in the CURRENT evaluation context: scope variables used as keys / indices in
    the path (bound by the caller's scope= or by an earlier S(...) step) and handlers registered on the Glommer in use"""
    from glom import Glommer
    start()
    kind = concretize(kind, 0, 3)
    if kind is OUT or not (0 <= k < len(xs)):
        return True
    rows = [{'x': v, 'keep': i} for i, v in enumerate(xs)]
    t = {'rows': rows}
    if kind == 0:
        got = run(lambda: glom(t, Delete(T['rows'][S.k]['x'], ignore_missing=ignore), scope={'k': k}, glom_debug=True))
    elif kind == 1:
        got = run(lambda: glom(t, (S(k=Val(k)), Delete(T['rows'][S['k']]['x'], ignore_missing=ignore)), glom_debug=True))
    elif kind == 2:
        got = run(lambda: glom(t, (S(name=Val('rows')), Delete(Path(T[S['name']], k, 'x'), ignore_missing=ignore)), glom_debug=True))
    else:
        g = Glommer()
        g.register(_Box, get=lambda box, name: box.inner[name])
        t = _Box({'rows': rows})
        got = run(lambda: g.glom(t, Delete(Path('rows', k, 'x'), ignore_missing=ignore), glom_debug=True))
    reach('delete_ctx')
    if got.kind != 'ok':
        return fail(why='the element exists: the delete must succeed', got=got, kind=kind)
    for i, r in enumerate(rows):
        if ('x' in r) != (i != k) or r['keep'] != i:
            return fail(why='exactly the addressed element is removed', rows=rows, k=k, kind=kind)
    return True


def delete_s_rooted(present: int, style: int, ignore: bool, v: int, w: int) -> bool:
    """S-rooted destinations: Delete(S['acc']['a']['b']) with 0-2 of the containers present; the Delete step returns ITS
    TARGET (not the scope), the scope variable gets the plain `del`, the target itself is untouched"""
    from glom import Coalesce
    start()
    present, style = concretize(present, 0, 2), concretize(style, 0, 1)
    if present is OUT or style is OUT:
        return True
    acc = {'other': w}
    if present >= 1:
        acc['a'] = {'keep': w}
    if present >= 2:
        acc['a']['b'] = v
    exp_acc = copy.deepcopy(acc)
    if present >= 2:
        del exp_acc['a']['b']
    dest = S['acc']['a']['b'] if style == 0 else Path(S['acc'], 'a', 'b')
    t = {'x': w}
    seen = {}

    def grab(tt):
        seen['t'] = tt
        return tt
    spec = (S(acc=Val(acc)), Delete(dest, ignore_missing=ignore), grab, {'acc': S['acc'], 'x': 'x'})
    got = run(lambda: glom(t, spec, glom_debug=True))
    reach('del_s_rooted')
    if present < 2 and not ignore:
        return (got.kind == 'err' and acc == exp_acc) or fail(why='missing element without ignore_missing must fail and change nothing', got=got, acc=acc)
    if got.kind != 'ok':
        return fail(why='S-rooted delete failed', got=got)
    if seen.get('t') is not t:
        return fail(why='the Delete step must return its target', seen=repr(seen.get('t'))[:200])
    if got.value != {'acc': exp_acc, 'x': w}:
        return fail(why='scope variable differs from plain del (or the next step did not see the target)', got=got.value, exp=exp_acc)
    return t == {'x': w} or fail(why='target touched', t=t)


def seg_named_x(name: int, shape: int, style: int, v: int, w: int) -> bool:
    """path segments that happen to be spelled like the internal wildcard markers ('x', 'X') are ordinary keys / attributes"""
    start()
    name, shape, style = concretize(name, 0, 2), concretize(shape, 0, 2), concretize(style, 0, 2)
    if OUT in (name, shape, style):
        return True
    nm = ['x', 'X', 'xX'][name]
    inner = [{'y': w, 'keep': 1}, {}, [{'y': w}]][shape]
    t = {'pos': {nm: inner}, nm: {'y': w}}
    segs = ['pos', nm, 'y']
    path = ['.'.join(segs), Path(*segs), T['pos'][nm]['y']][style]
    snap = copy.deepcopy(t)
    got = run(lambda: glom(t, Delete(path), glom_debug=True))
    reach('seg_named_x')
    if shape != 0:
        return (got.kind == 'err' and t == snap) or fail(why='nothing to delete there: error, target unchanged', got=got, t=t)
    exp = copy.deepcopy(snap)
    del exp['pos'][nm]['y']
    return (got.kind == 'ok' and got.value is t and t == exp) or fail(why='plain nested del', got=got, t=t, exp=exp)


def _mk_parent(kind, v):
    """final parents of different kinds that all accept the segment '0' / 'k'"""
    if kind == 0:
        return [v, v + 1]                 # list: '0' is an index
    if kind == 1:
        return {'0': v, 'k': v + 1}       # dict: '0' is a key
    if kind == 2:
        return Obj(k=v, z=1)              # object: 'k' is an attribute
    return {'k': v}


def delete_reuse(k1: int, k2: int, seg: int, style: int, ignore: bool, v: int) -> bool:
    """ONE Delete spec object applied to parents of different kinds in successive calls: each call has the effect of del"""
    start()
    k1, k2, seg = concretize(k1, 0, 3), concretize(k2, 0, 3), concretize(seg, 0, 1)
    if k1 is OUT or k2 is OUT or seg is OUT:
        return True
    name = ['0', 'k'][seg]
    path, steps = spell(['p', name], [0, 1][style])
    spec = Delete(path, ignore_missing=ignore)
    for kind in (k1, k2):
        t = {'p': _mk_parent(kind, v), 'z': [1]}
        snap = plain(t)
        exp = ref_delete(t, steps, ignore)
        got = run(lambda: glom(t, spec, glom_debug=True))
        if exp[0] == 'ok':
            if got.kind != 'ok' or plain(t) != exp[1]:
                return fail(why='re-used Delete spec: effect differs from del', kind=kind, got=got, t=t, exp=exp[1])
        else:
            if got.kind != 'err' or plain(t) != snap:
                return fail(why='re-used Delete spec: expected an error and an unchanged target', kind=kind, got=got, t=t)
    reach('reuse')
    if k1 != k2:
        reach('reuse_mixed')
    return True


def delete_wild_mixed(k0: int, k1: int, k2: int, seg: int, ignore: bool, v: int) -> bool:
    """a wildcard whose matches are parents of different kinds"""
    start()
    k0, k1, k2, seg = concretize(k0, 0, 3), concretize(k1, 0, 3), concretize(k2, 0, 3), concretize(seg, 0, 1)
    if OUT in (k0, k1, k2, seg):
        return True
    name = ['0', 'k'][seg]
    rows = [_mk_parent(k, v + i) for i, k in enumerate((k0, k1, k2))]
    t = {'rows': rows}
    # reference: del at every match, in order; the first miss raises unless ignore_missing
    exp_rows = [_mk_parent(k, v + i) for i, k in enumerate((k0, k1, k2))]
    failed = False
    for r in exp_rows:
        res = ref_delete({'r': r}, [('P', 'r'), ('P', name)], ignore)
        if res[0] == 'ok':
            r2 = res[1]['r']
            if isinstance(r, list):
                r[:] = r2
            elif isinstance(r, dict):
                r.clear()
                r.update(r2)
            else:
                r.__dict__.clear()
                r.__dict__.update(r2.__dict__)
        else:
            failed = True
            break
    got = run(lambda: glom(t, Delete('rows.*.' + name, ignore_missing=ignore), glom_debug=True))
    reach('wild_mixed')
    if failed:
        return got.kind == 'err' or fail(why='a missing element at one match must raise without ignore_missing', got=got)
    return (got.kind == 'ok' and plain(rows) == plain(exp_rows)) or fail(why='wildcard delete over mixed parents', rows=rows, exp=exp_rows, got=got)


def delete_fn(which: int, xs: List[int], v: int) -> bool:
    start()
    if which == 0:
        o = Obj(a=Obj(b=xs, c=v))
        r = delete(o, 'a.c')
        ok = r is o and not hasattr(o.a, 'c') and o.a.b is xs
    elif which == 1:
        t = {'a': xs, 'b': v}
        r = glom(t, (Delete('b'), T), glom_debug=True)
        ok = r is t and 'b' not in t and t['a'] is xs
    elif which == 2:
        o = Obj(a={'l': xs, 'k': v})
        r = delete(o, T.a['k'])
        ok = r is o and 'k' not in o.a and o.a['l'] is xs
    elif which == 3:
        t = {'a': xs}
        r = delete(t, 'b.c.d', ignore_missing=True)
        ok = r is t and t == {'a': xs}
    else:
        t = {'a': {'b': v}}
        r = glom(t, (S(acc=Val({'y': 1, 'z': 2})), Delete(S['acc']['y']), S['acc']), glom_debug=True)
        ok = r == {'z': 2} and t == {'a': {'b': v}}
    reach('fn')
    return ok or fail(why='delete fn', which=which)


def obligations(tier):
    q = tier == 'quick'
    obs = []
    nseg = 5 if q else 8
    for fam in range(NFAM):
        for style in range(4):
            if style == 3 and fam not in (2, 6, 8, 10, 0):
                continue
            for n in (1, 2, 3):
                fx = {'fam': fam, 'style': style, 'n': n}
                if fam in (3, 5, 9, 12):
                    fx['w'] = 7
                cs = ['c0', 'c1', 'c2']
                for c in cs[n:]:
                    fx[c] = 0
                if q and n == 3:
                    pre = ' and '.join(['0 <= c0 < 2'] + ['0 <= %s < %d' % (c, nseg) for c in cs[1:n]])
                else:
                    pre = ' and '.join('0 <= %s < %d' % (c, nseg) for c in cs[:n])
                obs.append(Ob(delete_path, fixed=fx, pre=pre, name='delete_path_%s_s%d_n%d' % (FAMILIES[fam], style, n), timeout=120))
    for style in range(3):
        for nested in (False, True):
            obs.append(Ob(delete_list_idx, fixed={'style': style, 'nested': nested}, pre='len(xs) <= %d' % (3 if q else 4),
                          name='delete_list_idx_s%d_n%d' % (style, nested)))
    for shape in range(5):
        obs.append(Ob(delete_wild, fixed={'shape': shape}, pre='1 <= n <= 3', name='delete_wild_%d' % shape))
    obs.append(Ob(delete_fn, pre='0 <= which <= 4 and len(xs) <= 2', name='delete_fn'))
    obs.append(Ob(delete_s_rooted, pre='0 <= present <= 2 and 0 <= style <= 1', name='delete_s_rooted'))
    obs.append(Ob(delete_s_rooted, pre='0 <= present <= 2 and 0 <= style <= 1', twin='del_s_rooted', name='delete_s_rooted'))
    obs.append(Ob(seg_named_x, pre='0 <= name <= 2 and 0 <= shape <= 2 and 0 <= style <= 2', name='seg_named_x'))
    obs.append(Ob(seg_named_x, pre='0 <= name <= 2 and 0 <= shape <= 2 and 0 <= style <= 2', twin='seg_named_x', name='seg_named_x'))
    obs.append(Ob(delete_ctx, pre='0 <= kind <= 3 and len(xs) <= 3', name='delete_ctx'))
    obs.append(Ob(delete_ctx, pre='0 <= kind <= 3 and len(xs) <= 3', twin='delete_ctx', name='delete_ctx'))
    wp = '0 <= style <= 2 and 0 <= s0 <= 2 and 0 <= s1 <= 2 and 0 <= s2 <= 2'
    for nw in (1, 2, 3):
        for final in range(3):
            obs.append(Ob(delete_wild_sizes, fixed={'nw': nw, 'final': final}, pre=wp, name='delete_wild_sizes_w%d_f%d' % (nw, final), timeout=150))
    obs.append(Ob(delete_wild_sizes, fixed={'nw': 2, 'final': 0}, pre=wp, twin='wild_no_match', name='delete_wild_sizes_w2_f0'))
    obs.append(Ob(delete_wild_sizes, fixed={'nw': 3, 'final': 1}, pre=wp, twin='wild_many_leaves', name='delete_wild_sizes_w3_f1'))
    for k1 in range(4):
        obs.append(Ob(delete_reuse, fixed={'k1': k1}, pre='0 <= k2 <= 3 and 0 <= seg <= 1 and 0 <= style <= 1', name='delete_reuse_%d' % k1))
        obs.append(Ob(delete_wild_mixed, fixed={'k0': k1}, pre='0 <= k1 <= 3 and 0 <= k2 <= 3 and 0 <= seg <= 1', name='delete_wild_mixed_%d' % k1))
    tp = '0 <= c0 < 5 and 0 <= c1 < 5'
    fx = {'fam': 0, 'style': 0, 'n': 2, 'c2': 0}
    obs.append(Ob(delete_path, fixed=fx, pre=tp, twin='pde', name='delete_path_dicts'))
    obs.append(Ob(delete_path, fixed=fx, pre=tp, twin='deleted', name='delete_path_dicts'))
    obs.append(Ob(delete_path, fixed=fx, pre=tp, twin='ignored', name='delete_path_dicts'))
    obs.append(Ob(delete_list_idx, fixed={'style': 1, 'nested': False}, pre='len(xs) <= 3', twin='idx_err', name='delete_list_idx'))
    obs.append(Ob(delete_list_idx, fixed={'style': 1, 'nested': False}, pre='len(xs) <= 3', twin='idx_ignored', name='delete_list_idx'))
    obs.append(Ob(delete_wild, fixed={'shape': 0}, pre='1 <= n <= 3', twin='wild_many', name='delete_wild_0'))
    obs.append(Ob(delete_reuse, fixed={'k1': 0}, pre='0 <= k2 <= 3 and 0 <= seg <= 1 and 0 <= style <= 1', twin='reuse_mixed', name='delete_reuse_0'))
    obs.append(Ob(delete_wild_mixed, fixed={'k0': 0}, pre='0 <= k1 <= 3 and 0 <= k2 <= 3 and 0 <= seg <= 1', twin='wild_mixed', name='delete_wild_mixed_0'))
    return obs
