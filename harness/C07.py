"""C07 -- Scope bindings are lexically scoped, chain forward, never outlive the call."""
from typing import List

from glom import (glom, S, A, T, Val, Coalesce, Pipe, And, Or, Switch, GlomError, Spec, Match, Ref, Vars, Path,
                  PathAccessError)
import glom.core as gc

from vkit.common import start, reach, fail, known_open, concretize, OUT, run
from vkit.ob import Ob
import vkit.stubs  # noqa: F401

META = {
    'explanation': 'Spec skeletons of depth 2 over {tuple, Pipe, dict, list, Coalesce, And, Or, Switch, Spec(scope=)} are built '
                   'from decision variables with one or two binders (S(k=..), A.k, A.globals.k, Spec(scope={k:..})) at symbolic '
                   'positions and a reader (S[k] / S.k / S.globals.k through the public API) at every other position; bound '
                   'values are symbolic. The real evaluation is compared with the visibility relation of the statement, made '
                   'precise as a scope-parent tree over spec positions (parent of step i+1 of a chain is step i; parent of a '
                   'Switch / Match-dict value is its key spec; everything else hangs under its enclosing node); nearest binder '
                   'wins. Lifetime (two consecutive calls, caller scope mapping untouched), Vars/globals persistence within one '
                   'call, and Ref resolution are separate obligations.',
    'bounds': {
        'quick': {'skeleton depth': 2, 'node kinds': 9, 'binders': '1 (all positions) and 2 (shadowing, restricted shapes)',
                  'bound values': 'unbounded symbolic ints'},
        'thorough': {'skeleton depth': '2 (two binders everywhere), 3 (chains)'},
    },
    'stubs': ['S3 glom_debug=True', 'S4 state reset'],
    'outside_claim': ['skeletons deeper than 3', 'unbound Ref(name) (raises a raw KeyError; not fixed by the statement)'],
    'assumptions': ['visibility is observed with S[...] readers evaluated at the reader position through scope[glom]'],
}

UNBOUND = 'UNBOUND'
LOG = []


class Reader:
    """reads S['k'] (and S.globals.g) through the public API at its position; logs what it saw"""
    def __init__(self, node, fail=False, style=0):
        self.node, self.fail, self.style = node, fail, style

    def glomit(self, target, scope):
        rd = S['k'] if self.style == 0 else S.k
        seen = scope[gc.glom](target, Coalesce(rd, default=UNBOUND), scope)
        gseen = scope[gc.glom](target, Coalesce(S.globals.g, default=UNBOUND), scope)
        LOG.append((self.node, seen, gseen, target))
        if self.fail:
            raise GlomError('planned')
        return target

    def __repr__(self):
        return 'R%s' % self.node


LEAF = 9
NKIND = 9
KIND_NAMES = ['tuple', 'pipe', 'dict', 'list', 'coalesce', 'and', 'or', 'switch', 'specscope']


class Ctx:
    def __init__(self, binders):
        self.n = 0
        self.parent = {}
        self.leafnodes = []
        self.binders = binders            # {leaf index: (kind, value)}
        self.binder_nodes = {}            # node -> (leaf index, kind, value)
        self.scope_nodes = {}             # Spec(scope=) nodes -> value

    def new(self, parent):
        i = self.n
        self.n += 1
        self.parent[i] = parent
        return i


def mk(shape, ctx, parent, fail=False, style=0, sv=None):
    node = ctx.new(parent)
    if shape == LEAF:
        idx = len(ctx.leafnodes)
        ctx.leafnodes.append(node)
        if idx in ctx.binders:
            kind, val = ctx.binders[idx]
            ctx.binder_nodes[node] = (idx, kind, val)
            if kind == 0:
                return S(k=Val(val)), node
            if kind == 1:
                return S(k=T), node                # binds the current target (A.k would do the same)
            if kind == 2:
                return A.k, node
            return (A.globals.g), node
        return Reader(node, fail, style), node
    kind, kids = shape[0], shape[1:]
    if kind in (0, 1):
        specs = []
        prev = node
        for ksh in kids:
            sp, kn = mk(ksh, ctx, prev, style=style, sv=sv)
            specs.append(sp)
            prev = kn
        return (tuple(specs) if kind == 0 else Pipe(*specs)), node
    if kind == 2:
        d = {}
        for i, ksh in enumerate(kids):
            sp, kn = mk(ksh, ctx, node, style=style, sv=sv)
            d['key%d' % i] = sp
        return d, node
    if kind == 3:
        sp, kn = mk(kids[0], ctx, node, style=style, sv=sv)
        return [sp], node
    if kind in (4, 6):
        sps = []
        for i, ksh in enumerate(kids):
            sp, kn = mk(ksh, ctx, node, fail=(i == 0 and ksh == LEAF), style=style, sv=sv)
            sps.append(sp)
        return (Coalesce(*sps) if kind == 4 else Or(*sps)), node
    if kind == 5:
        sps = [mk(ksh, ctx, node, style=style, sv=sv)[0] for ksh in kids]
        return And(*sps), node
    if kind == 7:
        ksp, kn = mk(kids[0], ctx, node, style=style, sv=sv)
        vsp, vn = mk(kids[1], ctx, kn, style=style, sv=sv)
        return Switch([(ksp, vsp)]), node
    # Spec(child, scope={'k': sv}): binds at its own node for its subtree
    sp, kn = mk(kids[0], ctx, node, style=style, sv=sv)
    ctx.scope_nodes[node] = sv
    return Spec(sp, scope={'k': sv}), node


def shape_of(root, c0, c1):
    """depth-2 shape from decision variables: root kind, child kinds (LEAF = 9)"""
    def sub(c):
        if c == LEAF:
            return LEAF
        if c in (3, 8):
            return (c, LEAF)
        return (c, LEAF, LEAF)
    if root == LEAF:
        return LEAF
    if root in (3, 8):
        return (root, sub(c0))
    return (root, sub(c0), sub(c1))


def _expected(ctx, rnode, top_target, targets):
    """nearest binder that is an ancestor-or-self of the reader in the scope-parent tree and evaluated earlier"""
    ridx = ctx.leafnodes.index(rnode)
    anc = rnode
    while anc is not None:
        if anc in ctx.binder_nodes:
            bidx, kind, val = ctx.binder_nodes[anc]
            if kind in (0, 1, 2) and bidx < ridx:
                return val if kind == 0 else ('TARGET', anc)
        if anc in ctx.scope_nodes:
            return ctx.scope_nodes[anc]
        anc = ctx.parent[anc]
    return UNBOUND


def visibility(root: int, c0: int, c1: int, b0: int, bk0: int, b1: int, bk1: int, style: int, v0: int, v1: int, sv: int) -> bool:
    """b0/b1: leaf indices of the binders (b1 < 0: one binder); bk: binder kind 0 S(k=Val) 1 S(k=T) 2 A.k 3 A.globals.g"""
    start()
    sh = shape_of(root, c0, c1)
    binders = {b0: (bk0, v0)}
    if b1 >= 0:
        if b1 == b0:
            return True
        binders[b1] = (bk1, v1)
    ctx = Ctx(binders)
    spec, _ = mk(sh, ctx, None, style=style, sv=sv)
    if len(ctx.binder_nodes) != len(binders):
        return True            # binder index beyond the number of leaves
    del LOG[:]
    target = [[[1]]]
    caller_scope = {'other': 5}
    run(lambda: glom(target, spec, scope=caller_scope, glom_debug=True))
    if caller_scope != {'other': 5}:
        return fail(why="caller's scope mapping modified", caller_scope=caller_scope)
    if LOG:
        reach('observed')
    # globals: seen by everything evaluated later in the same call
    gb = [(idx, val) for node, (idx, kind, val) in ctx.binder_nodes.items() if kind == 3]
    tgt_at = dict((node, t) for node, _, _, t in LOG)
    for rnode, seen, gseen, t in LOG:
        exp = _expected(ctx, rnode, target, tgt_at)
        if isinstance(exp, tuple) and exp[0] == 'TARGET':
            # the binder bound the target it received (a container): only visibility is asserted here, the bound
            # value itself is checked by the S(k=Val(v)) binders and by `lifetime`
            if isinstance(seen, str) and seen == UNBOUND:
                return fail(why='S(k=T)/A.k binding not visible', rnode=rnode, seen=seen)
            reach('seen_target')
        else:
            if exp is UNBOUND:
                if seen != UNBOUND:
                    return fail(why='binding leaked', rnode=rnode, seen=seen, shape=sh, binders=binders)
            else:
                reach('seen')
                if not (seen == exp):
                    return fail(why='binding not visible / wrong value', rnode=rnode, seen=seen, exp=exp, shape=sh, binders=binders)
        ridx = ctx.leafnodes.index(rnode)
        gexp = UNBOUND
        for idx, val in gb:
            if idx < ridx:
                gexp = 'SET'
        if gexp == UNBOUND and gseen != UNBOUND:
            return fail(why='globals seen before being set', rnode=rnode, gseen=gseen)
        if gexp == 'SET' and gseen == UNBOUND:
            return fail(why='globals not persistent within the call', rnode=rnode)
        if gexp == 'SET':
            reach('globals_seen')
    return True


def switch_matchdict(which: int, v: int, w: int) -> bool:
    """a Switch or Match-dict key passes its bindings to its own value spec only"""
    start()
    del LOG[:]
    rd = lambda: Coalesce(S['k'], default=UNBOUND)
    if which == 0:
        spec = Switch([(S(k=Val(v)), rd())])
        got, exp = glom(1, spec, glom_debug=True), v
    elif which == 1:     # binding made inside a chain in the key does not escape the chain
        spec = Switch([((S(k=Val(v)), T), rd())])
        got, exp = glom(1, spec, glom_debug=True), UNBOUND
    elif which == 2:     # first case fails after binding; the second case must not see it
        spec = Switch([(And(S(k=Val(v)), Match(str)), Val('no')), (Val(1), rd())])
        got, exp = glom(1, spec, glom_debug=True), UNBOUND
    elif which == 3:     # sibling case value
        spec = (Switch([(S(k=Val(v)), Val(0))]), rd())
        got, exp = glom(1, spec, glom_debug=True), UNBOUND
    elif which == 4:     # Match-dict: key spec binds, its value spec sees it
        spec = Match({S(k=Val(v)): Auto_rd()})
        got, exp = glom({'a': 1}, spec, glom_debug=True), {'a': v}
    else:                # ... and the next key/value pair does not
        spec = Match({'b': Auto_rd(), S(k=Val(v)): object})
        got, exp = glom({'a': 1, 'b': 2}, spec, glom_debug=True), {'a': 1, 'b': UNBOUND}
    reach('switch')
    return got == exp or fail(got=got, exp=exp, which=which)


def Auto_rd():
    from glom import Auto
    return Auto(Coalesce(S['k'], default=UNBOUND))


def lifetime(which: int, v: int, w: int) -> bool:
    """nothing bound in one top-level call is visible in the next; scope= values are readable; caller mapping untouched"""
    start()
    rd = Coalesce(S['k'], default=UNBOUND)
    grd = Coalesce(S.globals.g, default=UNBOUND)
    caller = {'k0': w}
    snap = dict(caller)
    if which == 0:
        spec = (S(k=Val(v)), {'k': rd, 'g': grd, 'k0': S['k0']})
        first = glom(1, spec, scope=caller, glom_debug=True)
        second = glom(1, {'k': rd, 'g': grd, 'k0': S['k0']}, scope=caller, glom_debug=True)
        ok = first == {'k': v, 'g': UNBOUND, 'k0': w} and second == {'k': UNBOUND, 'g': UNBOUND, 'k0': w}
    elif which == 1:
        spec = ((A.globals.g), {'g': grd})
        first = glom(v, spec, scope=caller, glom_debug=True)
        second = glom(v, {'g': grd}, scope=caller, glom_debug=True)
        third = glom(v, {'g': grd}, glom_debug=True)
        ok = first == {'g': v} and second == {'g': UNBOUND} and third == {'g': UNBOUND}
    elif which == 2:     # Vars: shared mutable state for the duration of one call
        spec = (S(vars=Vars()), [A.vars.last], S.vars.last)
        first = glom([v, w], spec, glom_debug=True)
        again = glom([w], spec, glom_debug=True)          # same spec object: fresh Vars per call
        ok = first == w and again == w
        spec2 = (S(vars=Vars(cnt=0)), Coalesce(S.vars.last, default=UNBOUND))
        ok = ok and glom([v], spec2, glom_debug=True) == UNBOUND
    elif which == 3:     # the same spec object, failing in the first call
        spec = (S(k=Val(v)), Coalesce(rd, default=0), T['missing'])
        r1 = run(lambda: glom({}, spec, scope=caller, glom_debug=True))
        second = glom({}, rd, scope=caller, glom_debug=True)
        ok = r1.kind == 'err' and second == UNBOUND
    elif which == 4:     # Spec(scope=) overrides for its subtree only
        spec = (S(k=Val(v)), {'in': Spec(rd, scope={'k': w}), 'out': rd})
        ok = glom(1, spec, glom_debug=True) == {'in': w, 'out': v}
    elif which == 6:     # every way of declaring Vars: what one call wrote is gone in the next call of the SAME spec object,
        #                  and the mapping handed to Vars(...) is never written to
        ok = True
        for form in range(5):
            base = {'n': 0} if form == 1 else ({} if form == 2 else {'b': 2})
            base_snap = dict(base)
            vs = [Vars(), Vars(base), Vars(base), Vars(n=0), Vars(base, c=3)][form]
            spec = (S(vars=vs), [A.vars.last], {'last': Coalesce(S.vars.last, default=UNBOUND), 'all': (S.vars, dict)})
            first = glom([v, w], spec, glom_debug=True)
            second = glom([], spec, glom_debug=True)
            decl = [{}, base_snap, base_snap, {'n': 0}, dict(base_snap, c=3)][form]
            ok = ok and first['last'] == w and second == {'last': UNBOUND, 'all': decl} and base == base_snap
            if not ok:
                return fail(why='Vars state outlived its call (or the declared mapping was written to)', form=form, first=first, second=second, base=base)
    elif which == 7:     # ONE S(...) call with several keywords: every value spec is evaluated in the scope as it was
        #                  BEFORE the call -- a keyword never sees its sibling's new binding
        got = glom(1, (S(x=Val('outer')), S(x=Val(v), y=S['x']), {'x': S['x'], 'y': S['y']}), glom_debug=True)
        got2 = glom(1, (S(x=Val(v), y=Coalesce(S['x'], default=UNBOUND)), {'x': S['x'], 'y': S['y']}), glom_debug=True)
        got3 = glom(1, (S(a=Val(v), b=Val(w)), S(a=S['b'], b=S['a']), {'a': S['a'], 'b': S['b']}), glom_debug=True)
        ok = got == {'x': v, 'y': 'outer'} and got2 == {'x': v, 'y': UNBOUND} and got3 == {'a': w, 'b': v}
        if not ok:
            return fail(why='keywords of one S(...) call see each other', got=got, got2=got2, got3=got3)
    else:                # caller value shadowed inside, intact outside
        spec = {'a': (S(k0=Val(v)), S['k0']), 'b': S['k0']}
        ok = glom(1, spec, scope=caller, glom_debug=True) == {'a': v, 'b': w}
    reach('lifetime')
    return (ok and caller == snap) or fail(why='lifetime', which=which, caller=caller)


def none_values(which: int, style: int) -> bool:
    """a name bound to None (or 0 / '' / False) is bound: both reader spellings see the value, never the unbound default"""
    start()
    which, style = concretize(which, 0, 4), concretize(style, 0, 1)
    if which is OUT or style is OUT:
        return True
    val = [None, 0, '', False, ()][which]
    rd = Coalesce(S.k if style == 0 else S['k'], default=UNBOUND)
    r1 = glom(1, rd, scope={'k': val}, glom_debug=True)                       # passed via scope=
    r2 = glom(1, (S(k=Val(val)), rd), glom_debug=True)                        # S(k=...)
    r3 = glom(val, (A.k, Val(1), rd), glom_debug=True)                        # A.k binds the (falsy) target
    r4 = glom(1, (S(k=Val('outer')), Spec(rd, scope={'k': val})), glom_debug=True)      # inner falsy value shadows
    r5 = glom(1, (S(k=Val('outer')), (S(k=Val(val)), rd)), glom_debug=True)
    reach('none_values')
    got = [r1, r2, r3, r4, r5]
    ok = all((g is val) or (g == val and type(g) is type(val)) for g in got)
    return ok or fail(why='a falsy bound value must be readable', val=val, got=got, style=style)


def ref_nearest(depth: int, a: int, b: int) -> bool:
    """Ref(name) resolves to the nearest enclosing Ref(name, spec), allowing recursion"""
    start()
    t = a
    for d in range(depth):
        t = [t, [b]] if d == 0 else [t]

    def ref(x):
        return [ref(i) for i in x] if isinstance(x, list) else x + 1
    spec = Ref('r', Coalesce([Ref('r')], T + 1))
    if glom(t, spec, glom_debug=True) != ref(t):
        return fail(why='recursion')
    inner = Ref('r', (T, lambda v: ('inner', v)))
    outer = Ref('r', {'in': (Val(b), inner, Ref('r')), 'own': (Val(a), Coalesce((lambda v: v + 1), default=0))})
    got = glom(0, outer, glom_debug=True)
    # ONE reader object used under two different definitions (siblings), and again in a later call
    reader = Ref('q')
    # definition 1 and definition 2 each enclose the SAME reader object
    def1 = Ref('q', Coalesce(_Once(reader), Val(('first', a))))
    def2 = Ref('q', Coalesce(_Once(reader), Val(('second', b))))
    r1 = glom(0, {'x': def1, 'y': def2}, glom_debug=True)
    r2 = glom(0, def2, glom_debug=True)
    if r1 != {'x': ('first', a), 'y': ('second', b)} or r2 != ('second', b):
        return fail(why='a shared Ref(name) reader must resolve to the definition enclosing it in THIS evaluation', r1=r1, r2=r2)
    reach('ref')
    # after the inner definition, Ref('r') on the same chain resolves to the inner (nearest) one
    return got == {'in': ('inner', ('inner', b)), 'own': a + 1} or fail(got=got)


class _Once:
    """spec that defers to `inner` the first time it is evaluated in a call chain and fails afterwards, so that the
    recursion Ref(q) -> definition -> Ref(q) terminates after one level"""
    def __init__(self, inner):
        self.inner = inner

    def glomit(self, target, scope):
        if target == 'in':
            raise GlomError('stop')
        return scope[gc.glom]('in', self.inner, scope)


def obligations(tier):
    q = tier == 'quick'
    obs = []
    kinds = ([0, 1, 2, 3, 4, 7, LEAF] if q else list(range(NKIND)) + [LEAF])      # child kinds
    ck = '(' + ' or '.join('{v} == %d' % k for k in kinds) + ')'
    for root in range(NKIND):
        for bk0 in range(4):
            c0s = kinds if bk0 == 0 else [None]
            for c0 in c0s:
                fx = {'root': root, 'bk0': bk0, 'b1': -1, 'bk1': 0, 'v1': 0}
                pre = ck.format(v='c0') + ' and ' + ck.format(v='c1') + ' and 0 <= b0 <= 3 and 0 <= style <= 1'
                if root in (3, 8):
                    fx['c1'] = LEAF
                    pre = ck.format(v='c0') + ' and 0 <= b0 <= 3 and 0 <= style <= 1'
                nm = 'visibility_%s_bk%d' % (KIND_NAMES[root], bk0)
                if c0 is not None:
                    fx['c0'] = c0
                    pre = pre.replace(ck.format(v='c0') + ' and ', '')
                    nm += '_c%d' % c0
                if q:
                    fx['style'] = bk0 % 2
                    pre = pre.replace(' and 0 <= style <= 1', '')
                obs.append(Ob(visibility, fixed=fx, pre=pre, name=nm, timeout=150))
    # two binders (shadowing)
    roots2 = [0, 1, 2, 4, 7] if q else range(NKIND)
    for root in roots2:
        for c0 in ([0, LEAF, 2] if q else kinds):
            fx = {'root': root, 'c0': c0, 'style': 0, 'bk0': 0, 'bk1': 0}
            pre = ck.format(v='c1') + ' and 0 <= b0 <= 3 and 0 <= b1 <= 3'
            if root in (3, 8):
                fx['c1'] = LEAF
                pre = '0 <= b0 <= 3 and 0 <= b1 <= 3'
            obs.append(Ob(visibility, fixed=fx, pre=pre, name='shadow_%s_%s' % (KIND_NAMES[root], 'leaf' if c0 == LEAF else KIND_NAMES[c0]), timeout=150))
    obs.append(Ob(switch_matchdict, pre='0 <= which <= 5', name='switch_matchdict'))
    obs.append(Ob(lifetime, pre='0 <= which <= 7', name='lifetime'))
    obs.append(Ob(ref_nearest, pre='0 <= depth <= 3', name='ref_nearest'))
    obs.append(Ob(none_values, pre='0 <= which <= 4 and 0 <= style <= 1', name='none_values'))
    tp = ck.format(v='c0') + ' and ' + ck.format(v='c1') + ' and 0 <= b0 <= 3'
    fx = {'root': 0, 'bk0': 0, 'b1': -1, 'bk1': 0, 'v1': 0, 'style': 0}
    obs.append(Ob(visibility, fixed=fx, pre=tp, twin='seen', name='visibility_tuple'))
    obs.append(Ob(visibility, fixed=fx, pre=tp, twin='observed', name='visibility_tuple'))
    fx = {'root': 0, 'bk0': 3, 'b1': -1, 'bk1': 0, 'v1': 0, 'style': 0}
    obs.append(Ob(visibility, fixed=fx, pre=tp, twin='globals_seen', name='visibility_tuple_globals'))
    fx = {'root': 0, 'bk0': 1, 'b1': -1, 'bk1': 0, 'v1': 0, 'style': 0}
    obs.append(Ob(visibility, fixed=fx, pre=tp, twin='seen_target', name='visibility_tuple_target'))
    return obs
