"""C18 -- T and Path are faithful values: repr, pickle and slicing round-trip."""
import pickle
from typing import List, Optional

from glom import glom, T, S, A, Path, PathAccessError, GlomError
from glom.core import TType
import glom.core as gc

from vkit.common import start, reach, fail, known_open, concretize, OUT
from vkit.ob import Ob
import vkit.stubs  # noqa: F401

META = {
    'explanation': 'Path.__getitem__/__len__/__eq__/values/items/startswith/Path(p, q) are executed symbolically with '
                   'index/slice triples as unbounded symbolic ints (or None) and compared with the same operation on '
                   'the tuple of steps; repr/eval and pickle round-trips of T/S/A expressions built from a decision '
                   'stream are compared structurally and by evaluation.',
    'bounds': {
        'quick': {'path length': '<= 4', 'i, j, k': 'unbounded ints or None, each given index within [-n, n] for slices '
                  '("in-range slicing"), any int for indexing', 'roundtrip expression length': '<= 2 steps over a '
                  '31-step pool, roots T/S/A', 'compose': 'p, q <= 2 segments'},
        'thorough': {'path length': '<= 5', 'roundtrip expression length': '<= 3 steps'},
    },
    'stubs': ['S3 glom_debug=True', 'S4 state reset'],
    'outside_claim': ['arithmetic operators in reprs (not in the statement)', 'evaluation (not repr/pickle) of wildcards applied to the scope object S itself', 'slices with an index outside [-n, n]',
                      'slice step 0', 'literals outside the pool'],
    'assumptions': ['literal pool is finite because repr/eval/pickle are C boundaries (values are realised)'],
}

POOL = [('P', 'a'), ('P', 1), ('.', 'x'), ('[', 'y'), ('[', 0), ('x', None), ('P', 'b.c'), ('X', None)]
NPOOL = len(POOL)


def _mk_t(items, root=T):
    t = root
    for op, arg in items:
        t = gc._t_child(t, op, arg)
    return t


def _mk_path(items):
    """Build through the public constructor: plain values become 'P' parts, others go in as T steps."""
    parts = []
    for op, arg in items:
        if op == 'P':
            parts.append(arg)
        else:
            parts.append(_mk_t([(op, arg)]))
    return Path(*parts)


def _pick(cs):
    items = []
    for c in cs:
        it = None
        for n in range(NPOOL):
            if c == n:
                it = POOL[n]
        items.append(it)
    return items


def _in_range(v, n):
    return v is None or -n <= v <= n


def path_index(n: int, i: int, c0: int, c1: int, c2: int, c3: int, c4: int) -> bool:
    start()
    i = concretize(i, -n - 2, n + 2)
    items = _pick([c0, c1, c2, c3, c4][:n])
    p = _mk_path(items)
    tup = tuple(items)
    if len(p) != len(tup) or p.items() != tup or p.values() != tuple(a for _, a in tup):
        return fail(why='len/items/values', p=p, tup=tup)
    try:
        exp = (tup[i],)
    except IndexError:
        exp = None
    try:
        got = p[i]
    except IndexError:
        reach('index_error')
        return exp is None or fail(why='IndexError but tuple indexes', i=i, n=n)
    if exp is None:
        return fail(why='tuple raises IndexError, Path returned', got=got, i=i, n=n)
    reach('index_value')
    return (type(got) is Path and got.items() == exp) or fail(got=got, exp=exp)


def _value_roundtrip(got, exp):
    """a Path obtained by slicing is a Path like any other: it pickles (every protocol), copies and repr-round-trips to a
    Path with the same steps"""
    import copy
    for proto in (0, 2, pickle.HIGHEST_PROTOCOL):
        try:
            z = pickle.loads(pickle.dumps(got, proto))
        except Exception as e:
            return fail(why='a sliced Path does not pickle', got=got, proto=proto, e=e)
        if type(z) is not Path or z.items() != exp:
            return fail(why='pickle of a sliced Path differs', got=got, z=z)
    for z in (copy.copy(got), copy.deepcopy(got)):
        if type(z) is not Path or z.items() != exp:
            return fail(why='copy of a sliced Path differs', got=got, z=z)
    return True


def path_slice(n: int, i: Optional[int], j: Optional[int], k: Optional[int], c0: int, c1: int, c2: int, c3: int,
               c4: int) -> bool:
    start()
    if k == 0:
        return True
    if not (_in_range(i, n) and _in_range(j, n)):
        return True
    i, j, k = concretize(i, -n, n), concretize(j, -n, n), concretize(k, -n - 1, n + 1)
    items = _pick([c0, c1, c2, c3, c4][:n])
    p = _mk_path(items)
    tup = tuple(items)
    got = p[i:j:k]
    exp = tup[i:j:k]
    reach('slice')
    ok = type(got) is Path and got.items() == exp and len(got) == len(exp)
    return (ok or fail(why='slice', got=got, exp=exp, i=i, j=j, k=k)) and _value_roundtrip(got, exp)


def path_slice_fixed(n: int, i: Optional[int], j: Optional[int], k: Optional[int]) -> bool:
    """same, fixed step pool: keeps the path tree small so that i, j, k stay fully symbolic"""
    start()
    if k == 0:
        return True
    if not (_in_range(i, n) and _in_range(j, n)):
        return True
    i, j, k = concretize(i, -n, n), concretize(j, -n, n), concretize(k, -n - 1, n + 1)
    items = (POOL + POOL)[1:1 + n]
    p = _mk_path(items)
    tup = tuple(items)
    got = p[i:j:k]
    exp = tup[i:j:k]
    reach('slice_fixed')
    if len(exp) == 0:
        reach('slice_empty')
    ok = type(got) is Path and got.items() == exp and len(got) == len(exp)
    return (ok or fail(why='slice', got=got, exp=exp, i=i, j=j, k=k)) and _value_roundtrip(got, exp)


def path_rel(n: int, m: int, c0: int, c1: int, c2: int, d0: int, d1: int, d2: int, spell: int) -> bool:
    """==, !=, startswith, concatenation against tuple semantics"""
    start()
    a = _pick([c0, c1, c2][:n])
    b = _pick([d0, d1, d2][:m])
    p, q = _mk_path(a), _mk_path(b)
    ta, tb = tuple(a), tuple(b)
    if (p == q) != (ta == tb) or (p != q) == (ta == tb):
        return fail(why='eq', p=p, q=q)
    other = q if spell == 0 else q.path_t
    if p.startswith(other) != (ta[:len(tb)] == tb):
        return fail(why='startswith', p=p, q=q)
    if (p == q.path_t) != (ta == tb):
        return fail(why='eq with T', p=p, q=q)
    cat = Path(p, q)
    if cat.items() != ta + tb or len(cat) != len(ta) + len(tb):
        return fail(why='concat', cat=cat, exp=ta + tb)
    if Path(p, *[x for x in [q]]).values() != tuple(v for _, v in ta + tb):
        return fail(why='values')
    reach('rel')
    if ta == tb:
        reach('rel_equal')
    return True


# ---- compose: glom(t, Path(p, q)) == glom(glom(t, p), q) ------------------------------------------
class NS:
    def __init__(self, **kw):
        self.__dict__.update(kw)


SEGS = ['a', 'b', 0, 1, 'x', 'zz', -1, '0']


def _segs(cs):
    out = []
    for c in cs:
        s = None
        for n in range(len(SEGS)):
            if c == n:
                s = SEGS[n]
        out.append(s)
    return out


def compose(np: int, nq: int, c0: int, c1: int, d0: int, d1: int, u: int, v: int, w: int, spell: int) -> bool:
    start()
    leafobj = NS(x=u, a=[v, w])
    t = {'a': {'b': [u, {'x': v}], 'x': leafobj, 'a': {'a': w}}, 'b': [[u, v], leafobj, {'a': w}], 'x': NS(a={'b': v}, x=w)}
    ps, qs = _segs([c0, c1][:np]), _segs([d0, d1][:nq])
    if spell == 0:
        p, q = Path(*ps), Path(*qs)
    else:
        p, q = _mk_t([('[', s) for s in ps]), Path(*qs)
    whole = Path(p, q)
    try:
        got = ('ok', glom(t, whole, glom_debug=True))
    except GlomError as e:
        got = ('err', type(e))
    try:
        mid = glom(t, p, glom_debug=True)
        exp = ('ok', glom(mid, q, glom_debug=True))
    except GlomError as e:
        exp = ('err', type(e))
    if got[0] != exp[0]:
        return fail(why='outcome kind', got=got, exp=exp, p=p, q=q)
    if got[0] == 'err':
        reach('compose_err')
        return got[1] is exp[1] or fail(why='error class', got=got, exp=exp)
    reach('compose_ok')
    g, e = got[1], exp[1]
    if isinstance(e, (dict, list, NS)):
        return g is e or fail(why='identity', g=g, e=e)
    return g == e or fail(why='value', g=g, e=e)


def concat_root(root: int, np: int, nq: int, how: int, c0: int, c1: int, d0: int, d1: int, u: int) -> bool:
    """Path(p, q) is p's steps followed by q's steps FROM p's ROOT, also when p has no steps at all (a bare T, S or A, or a
    slice [:0] of a longer path); for an S-rooted p the result reads the scope"""
    start()
    root, np, nq, how = concretize(root, 0, 2), concretize(np, 0, 2), concretize(nq, 0, 2), concretize(how, 0, 2)
    if OUT in (root, np, nq, how):
        return True
    r = [T, S, A][root]
    ps, qs = _pick([c0, c1][:np]), _pick([d0, d1][:nq])
    if None in ps or None in qs:
        return True
    if root == 2:                    # an A (assignment) path only takes attribute steps
        ps = [('.', 'p%d' % i) for i in range(len(ps))]
        qs = [('.', 'q%d' % i) for i in range(len(qs))]
        if np + nq > 1:
            return True              # ... and only one of them
    p_t = _mk_t([(('[' if op == 'P' else op), arg) for op, arg in ps], r)
    q_t = _mk_t([(('[' if op == 'P' else op), arg) for op, arg in qs])
    if how == 0:
        whole = Path(p_t, q_t)
    elif how == 1:
        if root != 0:
            return True              # a Path as first part must be T-rooted (documented ValueError otherwise)
        whole = Path(Path(p_t), Path(q_t))
    else:
        if root == 2:
            return True
        longer = Path(_mk_t([('[', 'extra'), ('.', 'more')], p_t))
        whole = Path(longer[:np].path_t, q_t)              # a prefix slice (possibly empty) of a longer path with the same root
    exp_t = _mk_t([(('[' if op == 'P' else op), arg) for op, arg in ps + qs], r)
    reach('concat_root')
    if np == 0 and root != 0:
        reach('concat_bare_root')
    if not ops_eq(whole.path_t, exp_t):
        return fail(why='Path(p, q) is not the steps of p then q from the root of p', whole=whole, exp=exp_t)
    if repr(whole) != repr(Path(exp_t)):
        return fail(why='repr', whole=repr(whole), exp=repr(Path(exp_t)))
    if root == 1 and np == 0 and nq >= 1 and qs[0] in (('P', 'a'), ('[', 'y'), ('.', 'x')):
        # evaluation: an S-rooted path reads the scope, not the target
        name = qs[0][1]
        if nq == 1 or qs[1] not in (('P', 'a'), ('[', 'y'), ('.', 'x')):
            return True
        inner = {'a': u, 'y': u + 1}
        class _O:
            x = u + 2
        if qs[1][0] == '.':
            inner = _O()
        got = glom({'a': 'target', 'y': 'target', 'x': 'target'}, whole, scope={name: inner}, glom_debug=True)
        expv = {'a': u, 'y': u + 1, 'x': u + 2}[qs[1][1]]
        return got == expv or fail(why='an S-rooted concatenation must read the scope', got=got, exp=expv)
    return True


# ---- repr / pickle round trip ---------------------------------------------------------------------
def ops_eq(a, b):
    if isinstance(a, TType) and isinstance(b, TType):
        oa, ob = a.__ops__, b.__ops__
        return len(oa) == len(ob) and oa[0] is ob[0] and all(ops_eq(x, y) for x, y in zip(oa[1:], ob[1:]))
    if isinstance(a, Path) and isinstance(b, Path):
        return ops_eq(a.path_t, b.path_t)
    if type(a) is not type(b):
        return False
    if isinstance(a, (tuple, list)):
        return len(a) == len(b) and all(ops_eq(x, y) for x, y in zip(a, b))
    if isinstance(a, dict):
        return list(a) == list(b) and all(ops_eq(a[k], b[k]) for k in a)
    return a == b


LITS = [0, -1, 'a', 'a.b', "q'\"", 'back\\slash', '', None, 1.5, True, (1, 2), (1,), (), slice(1, 2),
        slice(None, None, -1), len, b'x', frozenset([1]), T['n'], S.v, 1, 1.0, False, 0.0]
CALLS = [((), {}), ((1, 'x'), {}), ((), {'k': None}), ((T['a'], [1, T.b]), {'z': (1,)}), ((len,), {})]
ATTRS = ['a', 'b_c', '_p']
DUNDERISH = ['priv', 'v_', 'doc__']
NSTEPS = len(LITS) + len(ATTRS) + 4 + len(CALLS) + len(DUNDERISH)


def _step(t, c):
    """apply step number c (a decision variable) to expression t"""
    n = 0
    for l in LITS:
        if c == n:
            return t[l]
        n += 1
    for name in ATTRS:
        if c == n:
            return getattr(t, name)
        n += 1
    if c == n:
        return t.__('class__')
    n += 1
    if c == n:
        return t.__star__()
    n += 1
    if c == n:
        return t.__starstar__()
    n += 1
    if c == n:
        return t[1:2, ::3]
    n += 1
    for args, kw in CALLS:
        if c == n:
            return t(*args, **kw)
        n += 1
    for name in DUNDERISH:                # attribute names that START with two underscores (reserved, spelled T.__('name'))
        if c == n:
            return t.__(name)
        n += 1
    return None


_EVAL_NS = {'T': T, 'S': S, 'A': A, 'Path': Path, 'len': len, 'frozenset': frozenset}


def _res_eq(a, b):
    if a is b:
        return True
    if type(a) is not type(b):
        return False
    if isinstance(a, (list, tuple)):
        return len(a) == len(b) and all(_res_eq(p, q) for p, q in zip(a, b))
    if type(a).__eq__ is object.__eq__:
        return True      # freshly constructed objects without value equality: nothing to compare
    return a == b


def _same_eval(x, y, leaf):
    """x and y evaluate identically on a small set of targets (value or error class)"""
    targets = [{'a': {'a': leaf, 'b_c': [leaf]}, 0: [leaf, leaf + 1], 'n': 0, 'a.b': leaf, '': {0: leaf}},
               [[leaf, 2, 3], {'a': leaf}], NS(a=NS(a=leaf, b_c=leaf), b_c={'a': leaf}, _p=[leaf])]
    for t in targets:
        outs = []
        for e in (x, y):
            try:
                outs.append(('ok', glom(t, e, scope={'v': 'a', 'n': 0}, glom_debug=True)))
            except Exception as ex:
                outs.append(('err', type(ex)))
        if outs[0][0] != outs[1][0]:
            return False
        if outs[0][0] == 'err':
            if outs[0][1] is not outs[1][1]:
                return False
        elif not _res_eq(outs[0][1], outs[1][1]):
            return False
    return True


def _roundtrip(x, leaf):
    r = repr(x)
    try:
        y = eval(r, dict(_EVAL_NS))
    except Exception as e:
        return fail(why='eval(repr) raises', r=r, e=e)
    if not isinstance(y, TType):
        return fail(why='eval(repr) is not a T expression', r=r, y=y)
    if repr(y) != r or not ops_eq(x, y):
        return fail(why='eval(repr) differs', r=r, ry=repr(y), xops=x.__ops__, yops=y.__ops__)
    z = pickle.loads(pickle.dumps(x))
    if not ops_eq(x, z) or repr(z) != r:
        return fail(why='pickle differs', r=r, z=z)
    scope_wild = x.__ops__[0] is S and x.__stars__() > 0   # traverses glom's own per-call scope objects
    if x.__ops__[0] is not A and not scope_wild and not _same_eval(x, y, leaf):
        return fail(why='evaluates differently', r=r)
    return True


def roundtrip1(root: int, c0: int, leaf: int) -> bool:
    start()
    r = T if root == 0 else (S if root == 1 else A)
    try:
        x = _step(r, c0)
    except Exception:
        return True      # the builder itself refuses (A-rooted call / S() without kwargs): not an expression
    reach('rt1')
    return _roundtrip(x, leaf)


EQ_LITS = [0, 0.0, False, 1, 1.0, True, -1, -1.0]


def roundtrip_pair(k0: int, k1: int, how: int, leaf: int) -> bool:
    """two expressions that differ only in an equal-valued literal of another type (0 / 0.0 / False, 1 / 1.0 / True), the first
    one built, repr'd, pickled and evaluated before the second: the second still round-trips as itself"""
    start()
    k0, k1, how = concretize(k0, 0, len(EQ_LITS) - 1), concretize(k1, 0, len(EQ_LITS) - 1), concretize(how, 0, 2)
    if k0 is OUT or k1 is OUT or how is OUT:
        return True
    a, b = EQ_LITS[k0], EQ_LITS[k1]
    mk = [lambda l: T[l], lambda l: T.a[l], lambda l: T[l:l]][how]
    first = mk(a)
    repr(first)
    pickle.dumps(first)
    second = mk(b)
    reach('pair')
    r = repr(second)
    want = ['T[%r]', 'T.a[%r]', 'T[%r:%r]'][how] % ((b,) if how < 2 else (b, b))
    if r != want:
        return fail(why='repr of the second expression', r=r, want=want)
    return _roundtrip(second, leaf)


def roundtrip2(root: int, c0: int, c1: int, leaf: int) -> bool:
    start()
    r = T if root == 0 else (S if root == 1 else A)
    try:
        x = _step(_step(r, c0), c1)
    except Exception:
        return True
    reach('rt2')
    return _roundtrip(x, leaf)


def roundtrip3(root: int, c0: int, c1: int, c2: int, leaf: int) -> bool:
    start()
    r = T if root == 0 else (S if root == 1 else A)
    try:
        x = _step(_step(_step(r, c0), c1), c2)
    except Exception:
        return True
    reach('rt3')
    return _roundtrip(x, leaf)


PARTS = ['a', 1, 'b.c', T.x, T['y'], S.a, T.__star__(), Path('p', 'q'), None, (1, 2)]


def path_roundtrip(n: int, c0: int, c1: int, c2: int) -> bool:
    start()
    parts = []
    for c in [c0, c1, c2][:n]:
        for k in range(len(PARTS)):
            if c == k:
                parts.append(PARTS[k])
    try:
        p = Path(*parts)
    except Exception:
        return True      # Path() refuses S-rooted parts after the first: not a Path
    r = repr(p)
    try:
        q = eval(r, dict(_EVAL_NS))
    except Exception as e:
        return fail(why='eval(repr(path)) raises', r=r, e=e)
    qq = q if isinstance(q, Path) else Path(q)
    reach('path_rt')
    if not ops_eq(p.path_t, qq.path_t):
        return fail(why='path repr round trip', r=r, pops=p.path_t.__ops__, qops=qq.path_t.__ops__)
    z = pickle.loads(pickle.dumps(p.path_t))
    return ops_eq(z, p.path_t) or fail(why='pickle path_t')


def _cs(n, K, names):
    return ' and '.join('0 <= %s < %d' % (nm, K) for nm in names[:n]) or 'True'


def _dom(n, quick_pad=0):
    return ('(i is None or -{n} <= i <= {n}) and (j is None or -{n} <= j <= {n}) and '
            '(k is None or (-{m} <= k <= {m} and k != 0))').format(n=n, m=n + 1)


RT_SUBSET = [0, 2, 9, 11, 12, 13, 17, 18, 20, 21, 22, 24, 27, 28, 29, 30, 32, 34, 36]   # one step of every kind


def obligations(tier):
    obs = []
    q = tier == 'quick'
    maxn = 3 if q else 5
    names = ['c0', 'c1', 'c2', 'c3', 'c4']
    K = 4 if q else NPOOL
    for n in range(0, maxn + 1):
        fx = {'n': n}
        for nm in names[n:]:
            fx[nm] = 0
        obs.append(Ob(path_slice_fixed, fixed={'n': n}, pre=_dom(n), name='path_slice_fixed_n%d' % n))
        if n <= 3:
            obs.append(Ob(path_index, fixed=fx, pre=_cs(n, K, names) + ' and -%d <= i <= %d' % (n + 2, n + 2),
                          name='path_index_n%d' % n))
        if n <= (1 if q else 2):
            obs.append(Ob(path_slice, fixed=fx, pre=_cs(n, K if n < 2 else 4, names) + ' and ' + _dom(n), name='path_slice_n%d' % n))
    for n in range(0, 3):
        for m in range(0, n + 1):
            fx = {'n': n, 'm': m}
            for nm in ['c0', 'c1', 'c2'][n:]:
                fx[nm] = 0
            for nm in ['d0', 'd1', 'd2'][m:]:
                fx[nm] = 0
            Km = K if n + m < 4 else 4          # sized: 4^4 x 2 paths for the longest pair
            pre = ' and '.join([_cs(n, Km, ['c0', 'c1', 'c2']), _cs(m, Km, ['d0', 'd1', 'd2']), '0 <= spell <= 1'])
            obs.append(Ob(path_rel, fixed=fx, pre=pre, name='path_rel_n%d_m%d' % (n, m)))
    for np_ in (1, 2):
        for nq in (1, 2):
            for spell in (0, 1):
                if np_ == 2 and nq == 2:
                    if q:
                        continue
                    for c0 in range(len(SEGS)):
                        fx = {'np': 2, 'nq': 2, 'spell': spell, 'c0': c0}
                        pre = ' and '.join([_cs(1, len(SEGS), ['c1']), _cs(2, len(SEGS), ['d0', 'd1'])])
                        obs.append(Ob(compose, fixed=fx, pre=pre, name='compose_p2_q2_s%d_%d' % (spell, c0)))
                    continue
                fx = {'np': np_, 'nq': nq, 'spell': spell}
                if np_ < 2:
                    fx['c1'] = 0
                if nq < 2:
                    fx['d1'] = 0
                pre = ' and '.join([_cs(np_, len(SEGS), ['c0', 'c1']), _cs(nq, len(SEGS), ['d0', 'd1'])])
                obs.append(Ob(compose, fixed=fx, pre=pre, name='compose_p%d_q%d_s%d' % (np_, nq, spell)))
    for root in range(3):
        for np_ in range(3):
            for nq in range(3):
                fx = {'root': root, 'np': np_, 'nq': nq}
                for nm in ['c0', 'c1'][np_:] + ['d0', 'd1'][nq:]:
                    fx[nm] = 0
                pre = ' and '.join(['0 <= how <= 2', _cs(np_, 3, ['c0', 'c1']), _cs(nq, 4, ['d0', 'd1'])])
                obs.append(Ob(concat_root, fixed=fx, pre=pre, name='concat_root_r%d_p%d_q%d' % (root, np_, nq), timeout=150))
    obs.append(Ob(concat_root, fixed={'root': 1, 'np': 0, 'nq': 2, 'c0': 0, 'c1': 0}, pre='0 <= how <= 2 and ' + _cs(2, 4, ['d0', 'd1']),
                  twin='concat_bare_root', name='concat_root_r1_p0_q2'))
    obs.append(Ob(path_slice_fixed, fixed={'n': 2}, pre=_dom(2), twin='slice_empty', name='path_slice_fixed_n2'))
    for root in range(3):
        obs.append(Ob(roundtrip1, fixed={'root': root, 'leaf': 7}, pre='0 <= c0 < %d' % NSTEPS, name='roundtrip1_r%d' % root))
        for c0 in range(NSTEPS):
            if q and root > 0 and c0 not in RT_SUBSET:
                continue
            obs.append(Ob(roundtrip2, fixed={'root': root, 'c0': c0, 'leaf': 7}, pre='0 <= c1 < %d' % NSTEPS,
                          name='roundtrip2_r%d_%d' % (root, c0)))
    if not q:
        for root in range(2):
            for c0 in RT_SUBSET:
                for c1 in RT_SUBSET:          # sized: one step of every kind in the first two positions, every step in the third
                    obs.append(Ob(roundtrip3, fixed={'root': root, 'c0': c0, 'c1': c1, 'leaf': 7}, pre='0 <= c2 < %d' % NSTEPS,
                                  name='roundtrip3_r%d_%d_%d' % (root, c0, c1)))
    for k0 in range(len(EQ_LITS)):
        obs.append(Ob(roundtrip_pair, fixed={'k0': k0, 'leaf': 7}, pre='0 <= k1 < %d and 0 <= how <= 2' % len(EQ_LITS), name='roundtrip_pair_%d' % k0))
    for n in range(0, 3 if q else 4):
        fx = {'n': n}
        for nm in ['c0', 'c1', 'c2'][n:]:
            fx[nm] = 0
        obs.append(Ob(path_roundtrip, fixed=fx, pre=_cs(n, len(PARTS), ['c0', 'c1', 'c2']), name='path_roundtrip_n%d' % n))
    # vacuity twins
    obs.append(Ob(path_index, fixed={'n': 2, 'c2': 0, 'c3': 0, 'c4': 0}, pre=_cs(2, K, names) + ' and -4 <= i <= 4',
                  twin='index_error', name='path_index_n2'))
    obs.append(Ob(path_index, fixed={'n': 2, 'c2': 0, 'c3': 0, 'c4': 0}, pre=_cs(2, K, names) + ' and -4 <= i <= 4',
                  twin='index_value', name='path_index_n2'))
    obs.append(Ob(path_slice_fixed, fixed={'n': 3}, pre=_dom(3), twin='slice_fixed', name='path_slice_fixed_n3'))
    obs.append(Ob(path_rel, fixed={'n': 1, 'm': 1, 'c1': 0, 'c2': 0, 'd1': 0, 'd2': 0},
                  pre='0 <= c0 < %d and 0 <= d0 < %d and 0 <= spell <= 1' % (K, K), twin='rel_equal', name='path_rel_11'))
    obs.append(Ob(compose, fixed={'np': 1, 'nq': 1, 'spell': 0, 'c1': 0, 'd1': 0},
                  pre='0 <= c0 < %d and 0 <= d0 < %d' % (len(SEGS), len(SEGS)), twin='compose_ok', name='compose_11'))
    obs.append(Ob(compose, fixed={'np': 1, 'nq': 1, 'spell': 0, 'c1': 0, 'd1': 0},
                  pre='0 <= c0 < %d and 0 <= d0 < %d' % (len(SEGS), len(SEGS)), twin='compose_err', name='compose_11'))
    obs.append(Ob(roundtrip2, fixed={'root': 0, 'c0': 2, 'leaf': 7}, pre='0 <= c1 < %d' % NSTEPS, twin='rt2', name='roundtrip2_r0_2'))
    obs.append(Ob(path_roundtrip, fixed={'n': 2, 'c2': 0}, pre=_cs(2, len(PARTS), ['c0', 'c1']), twin='path_rt',
                  name='path_roundtrip_n2'))
    return obs
