"""C20 -- Concurrent and re-entrant glom calls behave exactly as when run alone."""
import threading
from typing import List

from glom import (glom, T, S, A, Val, Coalesce, Fill, Match, Spec, Call, Invoke, GlomError, PathAccessError, Path, Iter, Sum)
from glom.grouping import Group
import glom.core as gc

from vkit.common import start, reach, fail, known_open, concretize, OUT, run
from vkit.ob import Ob
import vkit.stubs

ENGINE_ENV = {'VKIT_REAL_TRACEBACK': '1'}      # trace text is compared: real formatting

META = {
    'explanation': 'Re-entrancy: a pool of 8 calls (scope bindings, globals, Fill / Match / Group modes, a failing path with its '
                   'trace, a Coalesce that catches an inner failure) each contain a hook callable; decision variables choose which '
                   'call runs inside which hook, to nesting depth 3, with symbolic data; every call\'s value / error class / trace '
                   'text must equal what the same spec objects produce when the hook does nothing. Concurrency: 2 (thorough: 3) '
                   'evaluations run in worker threads in lock-step, each with up to 4 yield points at its user callables; the '
                   'SCHEDULE VECTOR is symbolic, so the solver closes the set of interleavings at user-callable granularity; per '
                   'schedule every evaluation must equal its isolated outcome, including the trace text of the failing one. The '
                   'evaluations deliberately share module state (same path strings, cold Path cache and registry memo).',
    'bounds': {
        'quick': {'re-entrant nesting depth': 3, 'call pool': 11, 'threads': 2, 'yield points per evaluation': '<= 4', 'schedule vector length': 8,
                  'shared spec objects': '8 kinds (Spec.glom scope=, Spec with own scope, Vars(), Vars(base), Vars(**defaults), empty list / dict literals in argument position, two error classes sharing a __name__) x {A then B, B then A, B nested in A, B in another thread while A is parked}'},
        'thorough': {'threads': 3, 'schedule vector length': '10 (6 free switch points for three threads, 8 for two)'},
    },
    'stubs': ['S6: worker threads run untraced (only the schedule is symbolic; data inside workers is concrete)', 'S4 state reset'],
    'outside_claim': ['free-running threads under a minimal switch interval', 'interleavings finer than user-callable granularity '
                      '(bytecode-level pre-emption): not expressible as solver variables with the tools present -- NOT claimed'],
    'assumptions': [],
}

HOOKS = {}          # hook id -> callable run inside that hook (or absent)
OUTCOMES = {}       # call id -> outcome observed when it ran nested


class Hook:
    """user callable inside a spec; when armed it makes a nested glom() call"""
    def __init__(self, hid):
        self.hid = hid
        self.__name__ = 'hook%d' % hid

    def __call__(self, t):
        fn = HOOKS.get(self.hid)
        if fn is not None:
            fn()
        return t

    def __repr__(self):
        return '<hook%d>' % self.hid


NCALL = 11


def make_pool():
    hooks = [Hook(i) for i in range(NCALL)]
    specs = [
        (S(k=Val('outer-k')), hooks[0], {'v': Coalesce(S['k'], default='UNBOUND'), 't': T}),       # 0 scope binding
        Fill([hooks[1], 'literal', T]),                                                           # 1 Fill mode
        Match({'a': hooks[2], 'b': int}),                                                         # 2 Match mode (hook as predicate)
        Group({(lambda x, h=hooks[3]: (h(x), x % 2)[1]): [T]}),                                   # 3 Group accumulators
        (hooks[4], 'a', T['missing']['deeper']),                                                  # 4 fails after the hook (trace!)
        Coalesce((hooks[5], T['nope']), Val('fallback')),                                         # 5 branch fails after the hook
        ((A.globals.g), hooks[6], Coalesce(S.globals.g, default='UNBOUND')),                      # 6 globals
        (hooks[7], [T * 2], Sum()),                                                               # 7 plain restructuring
        Call(_rec, args=([T['id'], Spec(hooks[8]), 'lit'],), kwargs={'k': {'d': Spec(hooks[8])}}),   # 8 hook inside a list / dict ARGUMENT under construction
        ('a', hooks[9], ['x']),                                                                   # 9 fails: nothing to iterate at path a
        ('b', 'c', hooks[10], [T]),                                                               # 10 fails the same way at another path
    ]
    return hooks, specs


def _rec(*a, **kw):
    return (a, sorted(kw.items()))


def make_target(i, x, y):
    # calls 3 (bucket keys hashed next to id(spec) keys) and 4/5 (targets formatted into the error trace) get concrete data
    return [{'a': x}, x, {'a': 5, 'b': y}, [3, 4, 5], {'a': {'b': 1}}, {'z': 2}, x, [x, y], {'id': x}, {'a': 7}, {'b': {'c': 8}}][i]


def outcome_of(thunk):
    try:
        return ('ok', thunk())
    except GlomError as e:
        return ('err', type(e).__name__, str(e))


def same(a, b):
    if a[0] != b[0]:
        return False
    if a[0] == 'err':
        return a[1] == b[1] and a[2] == b[2]
    return a[1] == b[1] and type(a[1]) is type(b[1])


def reentrant(c0: int, c1: int, c2: int, depth: int, x: int, y: int) -> bool:
    """call c0 runs; inside its hook call c1 runs; inside c1's hook call c2 runs (depth 1..3)"""
    start()
    cs = [c0, c1, c2][:depth]
    if len(set(cs)) != len(cs):
        return True            # the same spec object re-entered recursively is covered by `recursive`
    hooks, specs = make_pool()
    targets = [make_target(c, x + i, y - i) for i, c in enumerate(cs)]
    # alone: hooks unarmed
    HOOKS.clear()
    alone = []
    for c, t in zip(cs, targets):
        vkit.stubs.reset_glom_state()            # "alone" = first call in fresh library state
        alone.append(outcome_of(lambda c=c, t=t: glom(t, specs[c])))
    # nested
    vkit.stubs.reset_glom_state()
    OUTCOMES.clear()

    def arm(level):
        if level >= len(cs):
            return
        def run_inner():
            OUTCOMES[level] = outcome_of(lambda: glom(targets[level], specs[cs[level]]))
        HOOKS[cs[level - 1]] = run_inner
        arm(level + 1)
    arm(1)
    OUTCOMES[0] = outcome_of(lambda: glom(targets[0], specs[cs[0]]))
    HOOKS.clear()
    reach('reentrant')
    for lvl in range(len(cs)):
        if lvl not in OUTCOMES:
            return fail(why='nested call did not run', lvl=lvl, cs=cs)
        if not same(OUTCOMES[lvl], alone[lvl]):
            return fail(why='re-entrant call differs from the call run alone', lvl=lvl, cs=cs, nested=OUTCOMES[lvl], alone=alone[lvl])
        if alone[lvl][0] == 'err':
            reach('reentrant_err')
    return True


def recursive_args(n: int, x: int) -> bool:
    """the same spec object -- with a list argument under construction -- re-entered from the callable inside that list"""
    start()
    holder = {}

    def f(t):
        if t['n'] <= 0:
            return 'leaf'
        return glom({'n': t['n'] - 1, 'id': t['id'] + 1}, holder['spec'])
    holder['spec'] = Call(_rec, args=([T['id'], Spec(f), T['n']],))
    got = glom({'n': n, 'id': x}, holder['spec'])
    exp = 'leaf'
    for lvl in range(0, n + 1):
        exp = (([x + (n - lvl), exp, lvl],), [])
    reach('recursive_args')
    return got == exp or fail(got=got, exp=exp)


def recursive(n: int, x: int) -> bool:
    """the same spec object re-entered from its own callable (recursion through glom)"""
    start()
    holder = {}

    def f(t):
        if t['n'] <= 0:
            return 0
        return 1 + glom({'n': t['n'] - 1, 'k': t['k']}, holder['spec'])
    holder['spec'] = (S(lvl=T['n']), f, lambda r: r)
    got = glom({'n': n, 'k': x}, holder['spec'])
    reach('recursive')
    return got == n or fail(got=got, n=n)


def caught_inner(c1: int, x: int, y: int) -> bool:
    """an inner failure propagates out of the hook and is caught by the outer Coalesce"""
    start()
    hooks, specs = make_pool()
    inner_t = make_target(4, x, y)
    outer = Coalesce((hooks[5], Val('not reached') if False else T), Val('fallback'))
    HOOKS.clear()
    alone_inner = outcome_of(lambda: glom(inner_t, specs[4]))
    seen = {}

    def run_inner():
        try:
            glom(inner_t, specs[4])
        except GlomError as e:
            seen['inner'] = ('err', type(e).__name__, str(e))
            raise
    HOOKS[5] = run_inner
    got = outcome_of(lambda: glom({'z': 2}, outer))
    HOOKS.clear()
    reach('caught')
    if got != ('ok', 'fallback'):
        return fail(why='outer Coalesce must catch the inner failure', got=got)
    return same(seen.get('inner', ('none',)), alone_inner) or fail(why='inner trace differs', seen=seen, alone=alone_inner)


# ---- threads in lock-step -------------------------------------------------------------------------------
class Stepper:
    """runs fn in a worker thread; every yield_() parks the worker until the main thread grants a step"""
    def __init__(self, fn):
        self.fn = fn
        self.go = threading.Semaphore(0)
        self.parked = threading.Semaphore(0)
        self.done = False
        self.result = None
        self.th = threading.Thread(target=self._run, daemon=True)
        self.th.start()
        self.parked.acquire()

    def _run(self):
        self.yield_()
        try:
            self.result = ('ok', self.fn(self))
        except GlomError as e:
            self.result = ('err', type(e).__name__, str(e))
        except Exception as e:
            self.result = ('EXC', type(e).__name__, str(e))
        self.done = True
        self.parked.release()

    def yield_(self):
        self.parked.release()
        self.go.acquire()

    def step(self):
        self.go.release()
        self.parked.acquire()


class Quiet:
    """stand-in for a Stepper when a call is run alone"""
    def yield_(self):
        pass


class Obj:
    def __init__(self, **kw):
        self.__dict__.update(kw)


class YieldingF:
    """user callable with a yield point and a stable repr (trace texts are compared verbatim)"""
    def __init__(self, st, mod=False):
        self.st, self.mod = st, mod

    def __call__(self, t):
        self.st.yield_()
        return t % 2 if self.mod else t

    def __repr__(self):
        return '<yielding-callable>'


# ---- ONE spec object shared by two evaluations: nothing one evaluation binds or accumulates is seen by the other -----
def _mk_err(tag):
    class Timeout(Exception):              # two libraries' error classes with the same __name__
        origin = tag
    return Timeout


ERR_A, ERR_B = _mk_err('a'), _mk_err('b')


class Gate:
    """user callable inside the shared spec; when armed it runs the OTHER evaluation (nested) or parks the thread"""
    def __init__(self):
        self.fn = None

    def __call__(self, t):
        fn, self.fn = self.fn, None
        if fn is not None:
            fn()
        return t

    def __repr__(self):
        return '<gate>'


N_SHARED = 8


def _shared(kind, gate, x, y):
    """(call A, call B) as thunks over one shared spec object; B binds / accumulates nothing itself"""
    from glom import Vars
    if kind == 0:       # per-call scope= of Spec.glom
        sp = Spec((gate, Coalesce(S['tok'], default='UNBOUND')))
        return (lambda: sp.glom({'t': 1}, scope={'tok': x})), (lambda: sp.glom({'t': 2}))
    if kind == 1:       # a Spec with its own scope plus a per-call scope
        sp = Spec((gate, {'base': S['base'], 'tok': Coalesce(S['tok'], default='UNBOUND')}), scope={'base': y})
        return (lambda: sp.glom({'t': 1}, scope={'tok': x})), (lambda: sp.glom({'t': 2}))
    if kind == 2:       # Vars() namespace filled by A.<name>
        sp = (S(seen=Vars()), [(gate, A.seen.last)], S.seen, dict)
        return (lambda: glom([x, y], sp)), (lambda: glom([], sp))
    if kind == 3:       # Vars with a base mapping
        sp = (S(c=Vars({'n': 0})), [(gate, A.c.n)], S.c.n)
        return (lambda: glom([x, y], sp)), (lambda: glom([], sp))
    if kind == 5:       # an EMPTY list literal in argument position is a fresh list in every evaluation
        sp = (S(seen=[]), [(gate, Invoke(list.append).specs(S['seen'], T))], S['seen'])
        return (lambda: glom([x, y], sp)), (lambda: glom([], sp))
    if kind == 6:       # ... also as a default the caller then appends to
        sp = (gate, Coalesce('zz', default={}))

        def use(t, k):
            r = glom(t, sp)
            before = dict(r)
            r[k] = 1
            return before
        return (lambda: use({'t': 1}, 'touched-by-a')), (lambda: use({'t': 2}, 'touched-by-b'))
    if kind == 7:       # two application error classes sharing a __name__, each raised in its own call
        def call(cls, with_gate):
            def raiser(t):
                raise cls(t)
            try:
                glom(1, (gate, raiser) if with_gate else raiser)
            except GlomError as e:
                return ('raised', type(e).__name__, isinstance(e, ERR_A), isinstance(e, ERR_B), getattr(e, 'origin', None))
            return 'no error'
        return (lambda: call(ERR_A, True)), (lambda: call(ERR_B, False))
    # Vars with keyword defaults
    sp = (S(c=Vars(n=0, m=y)), [(gate, A.c.n)], S.c, dict)
    return (lambda: glom([x], sp)), (lambda: glom([], sp))


def shared_spec(kind: int, how: int, x: int, y: int) -> bool:
    """how: 0 A then B, 1 B nested in A (from the callable inside the shared spec), 2 B in another thread while A is parked
    inside the callable, 3 B then A"""
    start()
    kind, how = concretize(kind, 0, N_SHARED - 1), concretize(how, 0, 3)
    if kind is OUT or how is OUT:
        return True
    # alone: each call on a FRESH spec object
    vkit.stubs.reset_glom_state()
    a_alone = outcome_of(_shared(kind, Gate(), x, y)[0])
    vkit.stubs.reset_glom_state()
    b_alone = outcome_of(_shared(kind, Gate(), x, y)[1])
    vkit.stubs.reset_glom_state()
    gate = Gate()
    call_a, call_b = _shared(kind, gate, x, y)
    res = {}
    if how == 0:
        res['a'] = outcome_of(call_a)
        res['b'] = outcome_of(call_b)
    elif how == 3:
        res['b'] = outcome_of(call_b)
        res['a'] = outcome_of(call_a)
    elif how == 1:
        gate.fn = lambda: res.__setitem__('b', outcome_of(call_b))
        res['a'] = outcome_of(call_a)
    else:
        st_holder = {}
        gate.fn = lambda: st_holder['st'].yield_()
        st = Stepper(lambda st_: call_a())
        st_holder['st'] = st
        st.step()                                  # A runs up to the gate and parks there (or finishes)
        res['b'] = outcome_of(call_b)              # B runs completely in the main thread meanwhile
        while not st.done:
            st.step()
        res['a'] = st.result
    reach('shared_spec')
    if 'b' not in res:
        return fail(why='the other evaluation did not run', how=how, kind=kind)
    if not same(res['b'], b_alone):
        return fail(why='an evaluation observed what another evaluation of the same spec object bound or accumulated', got=res['b'], alone=b_alone, kind=kind, how=how)
    if not same(res['a'], a_alone):
        return fail(why='evaluation A differs from A run alone', got=res['a'], alone=a_alone, kind=kind, how=how)
    return True


def thread_calls():
    """evaluations that share module state: same path strings, first-time registry lookups, a wildcard path, a failure"""
    def call_a(st):
        f = YieldingF(st)
        t = {'a': {'b': [1, 2]}, 'o': Obj(b=3)}
        return glom(t, (f, S(v=T['a']), f, {'v': (S['v'], 'b.0'), 'p': 'a.b', 'w': 'a.*', 'o': ('o', f, 'b')}))

    def call_b(st):
        f = YieldingF(st)
        t = Obj(a=Obj(b=(7, 8)), o={'b': 9})
        return glom(t, (f, Fill({'p': T.a.b, 'lit': 'a.b'}), f, T['p'], f))

    def call_c(st):
        f = YieldingF(st)
        t = {'a': {'b': 5}}
        return glom(t, (f, 'a', f, {'x': ('b', f, T['missing'])}))          # fails: trace text is compared

    def call_d(st):
        f = YieldingF(st, mod=True)
        return glom([1, 2, 3], Group({f: [T]}))
    return [call_a, call_b, call_c, call_d]


def schedules(w0: int, w1: int, s0: int, s1: int, s2: int, s3: int, s4: int, s5: int, s6: int, s7: int) -> bool:
    """two evaluations in worker threads, interleaved according to the symbolic schedule vector"""
    start()
    if w0 == w1:
        return True
    calls = thread_calls()
    vkit.stubs.reset_glom_state()
    alone0 = outcome_thread(calls[w0])
    vkit.stubs.reset_glom_state()
    alone1 = outcome_thread(calls[w1])
    vkit.stubs.reset_glom_state()           # cold caches: both evaluations populate them concurrently
    ws = [Stepper(calls[w0]), Stepper(calls[w1])]
    for s in (s0, s1, s2, s3, s4, s5, s6, s7):
        w = ws[s]
        if w.done:
            w = ws[1 - s]
        if not w.done:
            w.step()
    for w in ws:
        while not w.done:
            w.step()
    reach('schedules')
    for w, alone in zip(ws, (alone0, alone1)):
        if not same(w.result, alone):
            return fail(why='concurrent evaluation differs from the evaluation run alone', got=w.result, alone=alone)
        if alone[0] == 'err':
            reach('sched_err')
    return True


def schedules3(w0: int, w1: int, w2: int, s0: int, s1: int, s2: int, s3: int, s4: int, s5: int, s6: int, s7: int, s8: int,
               s9: int) -> bool:
    start()
    if len({w0, w1, w2}) != 3:
        return True
    calls = thread_calls()
    alone = []
    for wi in (w0, w1, w2):
        vkit.stubs.reset_glom_state()
        alone.append(outcome_thread(calls[wi]))
    vkit.stubs.reset_glom_state()
    ws = [Stepper(calls[w0]), Stepper(calls[w1]), Stepper(calls[w2])]
    for s in (s0, s1, s2, s3, s4, s5, s6, s7, s8, s9):
        order = [ws[s], ws[(s + 1) % 3], ws[(s + 2) % 3]]
        for w in order:
            if not w.done:
                w.step()
                break
    for w in ws:
        while not w.done:
            w.step()
    reach('schedules3')
    for w, al in zip(ws, alone):
        if not same(w.result, al):
            return fail(why='concurrent evaluation differs from the evaluation run alone', got=w.result, alone=al)
    return True


def outcome_thread(call):
    try:
        return ('ok', call(Quiet()))
    except GlomError as e:
        return ('err', type(e).__name__, str(e))


def obligations(tier):
    q = tier == 'quick'
    obs = []
    for c0 in range(NCALL):
        obs.append(Ob(reentrant, fixed={'c0': c0, 'depth': 2, 'c2': 0}, pre='0 <= c1 < %d' % NCALL, name='reentrant2_%d' % c0, timeout=300, path_timeout=60))
        for c1 in (range(NCALL) if not q else [(c0 + 1) % NCALL, (c0 + 4) % NCALL]):
            if c1 == c0:
                continue
            obs.append(Ob(reentrant, fixed={'c0': c0, 'c1': c1, 'depth': 3}, pre='0 <= c2 < %d' % NCALL, name='reentrant3_%d_%d' % (c0, c1),
                          timeout=300, path_timeout=60))
    obs.append(Ob(recursive, pre='0 <= n <= 3', name='recursive'))
    for kind in range(N_SHARED):
        obs.append(Ob(shared_spec, fixed={'kind': kind}, pre='0 <= how <= 3', name='shared_spec_%d' % kind, timeout=200))
    obs.append(Ob(shared_spec, fixed={'kind': 2}, pre='0 <= how <= 3', twin='shared_spec', name='shared_spec_2'))
    obs.append(Ob(recursive_args, pre='1 <= n <= 3', name='recursive_args'))
    obs.append(Ob(caught_inner, fixed={'c1': 4}, name='caught_inner', timeout=200))
    sv = ' and '.join('0 <= s%d <= 1' % i for i in range(8))
    for w0 in range(4):
        for w1 in range(4):
            if w0 == w1:
                continue
            if q:
                # quick: 6 free switch points, the tail of the vector fixed
                obs.append(Ob(schedules, fixed={'w0': w0, 'w1': w1, 's6': 0, 's7': 1}, pre=' and '.join('0 <= s%d <= 1' % i for i in range(6)),
                              name='schedules_%d_%d' % (w0, w1), timeout=300, path_timeout=60))
            else:
                obs.append(Ob(schedules, fixed={'w0': w0, 'w1': w1}, pre=sv, name='schedules_%d_%d' % (w0, w1), timeout=1800, path_timeout=60))
    if not q:
        sv3 = ' and '.join('0 <= s%d <= 2' % i for i in range(6))        # 3^6 schedules per trio (3^7 does not close in 3000 s)
        for trio in ((0, 1, 2), (1, 2, 3), (2, 0, 3)):
            obs.append(Ob(schedules3, fixed={'w0': trio[0], 'w1': trio[1], 'w2': trio[2], 's6': 2, 's7': 0, 's8': 1, 's9': 2}, pre=sv3,
                          name='schedules3_%d%d%d' % trio, timeout=3000, path_timeout=60))
    obs.append(Ob(reentrant, fixed={'c0': 0, 'depth': 2, 'c2': 0}, pre='0 <= c1 < %d' % NCALL, twin='reentrant_err', name='reentrant2_0'))
    obs.append(Ob(schedules, fixed={'w0': 0, 'w1': 2, 's6': 0, 's7': 1}, pre=' and '.join('0 <= s%d <= 1' % i for i in range(6)), twin='sched_err', name='schedules_0_2'))
    return obs
