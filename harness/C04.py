"""C04 -- Exceptions keep their class; glom failures are GlomErrors; default is selective."""
from typing import List

from glom import (glom, T, S, Path, Coalesce, Val, Spec, Invoke, Call, Check, Match, M, Fold, Sum, Flatten, Assign, Delete, Iter,
                  GlomError, PathAccessError, CoalesceError, UnregisteredTarget, BadSpec, CheckError, MatchError,
                  TypeMatchError, PathAssignError)
from glom.mutation import PathDeleteError
from glom.reduction import FoldError
from glom.grouping import Group, Limit

from vkit.common import start, reach, fail, known_open, concretize, OUT, run
from vkit.ob import Ob
import vkit.stubs  # noqa: F401

META = {
    'explanation': 'A fault is planted at one of 14 evaluation sites (user code behind T.attr, T[key] and a string-path attribute; top-level callable, tuple step, dict value, list element '
                   'chosen by a symbolic threshold, Coalesce branch, T method call, Invoke argument, Check validator, Fold op, '
                   'Match predicate, nested glom) raising one of 16 exception classes (builtins with 0-5 args, user classes with '
                   'attributes, keyword-only and arity-changing constructors, GlomError subclasses with and without their own '
                   '__init__, a BaseException subclass) with symbolic arguments, under every combination of default / skip_exc '
                   '/ glom_debug, through the NORMAL exit path of glom() (wrap, copy, _finalize); what leaves glom() is compared '
                   'with the table in the property statement. A second family plants glom\'s own failures and checks the '
                   'documented GlomError subtype.',
    'bounds': {
        'quick': {'sites': 14, 'exception classes': 18, 'keyword combinations': 17, 'exception arguments / thresholds': 'unbounded symbolic ints',
                  'list length': '<= 3'},
        'thorough': {'sites': 14, 'exception classes': 18, 'keyword combinations': 17},
    },
    'stubs': ['S2 traceback.format_exc constant (formatting is not the subject; C05 runs the real one)', 'S4 state reset'],
    'outside_claim': ['exceptions raised while *constructing* a spec', 'translation sites documented by glom: a Check validator '
                      'error becomes CheckError, a Match-mode predicate error becomes MatchError'],
    'assumptions': [],
}


class UserAttr(Exception):
    def __init__(self, msg, code):
        super().__init__(msg, code)
        self.code = code


class KwOnly(Exception):
    def __init__(self, *, code):
        super().__init__(code)
        self.code = code


class Arity(Exception):
    def __init__(self, a, b):
        super().__init__(a + b)


class MyGlom(GlomError):
    pass


class MyGlomInit(GlomError):
    def __init__(self, a, b):
        super().__init__(a + b)
        self.a = a


class MyGlomKw(GlomError):
    def __init__(self, *, code):
        super().__init__(code)
        self.code = code


class MyBase(BaseException):
    pass


class Falsy(Exception):
    """an exception object that is falsy"""
    def __bool__(self):
        return False


class EmptySized(Exception):
    """an exception class with a length (e.g. one that carries a list of sub-errors): len() == 0 makes it falsy"""
    def __len__(self):
        return len(self.args) - 1


def _twin(tag):
    class ValidationError(Exception):          # distinct classes that share a __name__ (pkg_a / pkg_b)
        origin = tag
    return ValidationError


TwinA, TwinB = _twin('a'), _twin('b')


class TimeoutError(Exception):                 # a user class shadowing a builtin name
    pass


import builtins as _b
PAIR_CLASSES = [TwinA, TwinB, TimeoutError, _b.TimeoutError, KeyError, MyGlom]


def fault_pair(e1: int, e2: int, site1: int, site2: int, kwi: int, a: int) -> bool:
    """two faults in successive glom() calls: the second is judged on its own class, whatever was raised before
    (classes sharing a __name__, a user class shadowing a builtin name)"""
    start()
    e2, site1, site2 = concretize(e2, 0, len(PAIR_CLASSES) - 1), concretize(site1, 0, 10), concretize(site2, 0, 10)
    if e2 is OUT or site1 is OUT or site2 is OUT:
        return True
    first, second = PAIR_CLASSES[e1], PAIR_CLASSES[e2]
    box = []

    def mk(cls):
        def raiser():
            e = cls(a)
            box.append(e)
            raise e
        return raiser
    t1, s1 = make_site(site1, mk(first), 0)
    try:
        glom(t1, s1)
    except Exception:
        pass
    del box[:]
    t2, s2 = make_site(site2, mk(second), 0)
    kw = dict(KW[kwi])
    if kw.get('default') == 'D':
        kw['default'] = DEFAULT_OBJ
    if kw.get('skip_exc') == 'MYBASE':
        kw['skip_exc'] = MyBase
    try:
        out = ('ret', glom(t2, s2, **kw))
    except Exception as e:
        out = ('exc', e)
    reach('pair')
    o = box[0]
    default = kw.get('default', None if 'skip_exc' in kw else '_MISSING')
    skip_exc = kw.get('skip_exc', () if default == '_MISSING' else GlomError)
    matches = isinstance(o, skip_exc) if skip_exc != () else False
    if matches and default != '_MISSING':
        return (out[0] == 'ret' and out[1] is default) or fail(why='default expected', out=out)
    if out[0] != 'exc':
        return fail(why='should raise', out=out)
    e = out[1]
    if kw.get('glom_debug'):
        return e is o or fail(why='debug object')
    if first is not second and type(first) is type(second) and first.__name__ == second.__name__:
        reach('same_name')
    ok = isinstance(e, second) and isinstance(e, GlomError) and e.args == o.args
    if second is not first and not issubclass(second, first) and isinstance(e, first) and first is not KeyError:
        return fail(why='second error is an instance of the class raised by the EARLIER call', e=type(e).__mro__)
    return ok or fail(why='class/args of the second error', e=e, mro=type(e).__mro__, second=second)


NEXC = 18
EXC_NAMES = ['KeyError', 'ValueError', 'TypeError', 'ZeroDivisionError', 'OSError', 'UnicodeDecodeError', 'StopIteration',
             'UserAttr', 'KwOnly', 'Arity', 'MyGlom', 'MyGlomInit', 'MyGlomKw', 'MyBase', 'AssertionError', 'LookupError', 'Falsy',
             'EmptySized']


def make_exc(k, a):
    if k == 0:
        return KeyError(a)
    if k == 1:
        return ValueError('v', a)
    if k == 2:
        return TypeError('t')
    if k == 3:
        return ZeroDivisionError(a)
    if k == 4:
        return OSError(2, 'nope')
    if k == 5:
        return UnicodeDecodeError('utf8', b'x', 0, 1, 'bad')
    if k == 6:
        return StopIteration(a)
    if k == 7:
        return UserAttr('m', a)
    if k == 8:
        return KwOnly(code=a)
    if k == 9:
        return Arity(a, 2)
    if k == 10:
        return MyGlom(a)
    if k == 11:
        return MyGlomInit(a, 2)
    if k == 12:
        return MyGlomKw(code=a)
    if k == 13:
        return MyBase(a)
    if k == 14:
        return AssertionError()
    if k == 16:
        return Falsy(a)
    if k == 17:
        return EmptySized(a)
    return LookupError(a, 'x')


NSITE = 14
SITE_NAMES = ['top', 'tuple2', 'dictval', 'list', 'coalesce', 'tcall', 'invoke', 'check', 'fold', 'matchpred', 'nested',
              'tattr', 'titem', 'pathattr']


class _Prop:
    """user code behind an attribute access"""
    def __init__(self, raiser):
        self._raiser = raiser

    @property
    def prop(self):
        return self._raiser()


class _Item:
    """user code behind an item access"""
    def __init__(self, raiser):
        self._raiser = raiser

    def __getitem__(self, k):
        return self._raiser()



def make_site(site, raiser, thr):
    """(target, spec).  raiser() raises the planted exception."""
    f = lambda t: raiser()
    if site == 0:
        return 1, f
    if site == 1:
        return 1, (T, f, T)
    if site == 2:
        return 1, {'a': Val(1), 'b': f}
    if site == 3:
        g = lambda x: raiser() if x > thr else x
        return None, [g]                 # target supplied by the caller (symbolic list)
    if site == 4:
        return 1, Coalesce(f, skip_exc=ArithmeticError)
    if site == 5:
        return {'f': f}, T['f'](1)
    if site == 6:
        return 1, Invoke(max).specs(T, f)
    if site == 7:
        return 1, Check(validate=f)
    if site == 8:
        return [1, 2], Fold(T, init=int, op=lambda acc, v: f(v))
    if site == 9:
        return 1, Match(f)
    if site == 11:
        return _Prop(raiser), T.prop
    if site == 12:
        return _Item(raiser), T['k']
    if site == 13:
        return _Prop(raiser), 'prop'
    return 1, (lambda t: glom(t, f))


KW = [{}, {'default': 'D'}, {'skip_exc': KeyError}, {'default': 'D', 'skip_exc': Exception},
      {'default': 'D', 'skip_exc': (ValueError, OSError)}, {'default': 'D', 'skip_exc': ()}, {'glom_debug': True},
      {'default': 'D', 'glom_debug': True}, {'default': 'D', 'skip_exc': GlomError}, {'default': 'D', 'skip_exc': LookupError},
      {'default': 'D', 'skip_exc': 'MYBASE'}, {'default': 'D', 'skip_exc': BaseException}, {'skip_exc': 'MYBASE'},
      {'skip_exc': ()}, {'default': None, 'skip_exc': ()}, {'default': 0}, {'default': '', 'skip_exc': Exception}]      # explicit but falsy
DEFAULT_OBJ = ['the default object']


def fault_matrix(site: int, exc: int, kwi: int, a: int, thr: int, xs: List[int]) -> bool:
    start()
    box = []
    if site == 7:
        a = concretize(a, 0, 2)          # Check formats the validator's exception eagerly: (D)
        if a is OUT:
            return True

    # access sites: the engine runs properties / __getitem__ behind its own getattr model with tracing off, so the
    # exception object (symbolic args) is built beforehand and only raised there
    prebuilt = [make_exc(exc, a)] if site in (11, 12, 13) else []

    def raiser():
        e = prebuilt[0] if prebuilt else make_exc(exc, a)
        box.append(e)
        raise e
    target, spec = make_site(site, raiser, thr)
    if site == 3:
        target = xs
    kw = dict(KW[kwi])
    if kw.get('default') == 'D':
        kw['default'] = DEFAULT_OBJ
    if kw.get('skip_exc') == 'MYBASE':
        kw['skip_exc'] = MyBase
    try:
        out = ('ret', glom(target, spec, **kw))
    except (Exception, MyBase) as e:      # the engine's own control-flow exceptions are other BaseExceptions
        out = ('exc', e)
    if not box:
        reach('no_fault')
        return out[0] == 'ret' or fail(why='raised although the fault was not triggered', out=out)
    o = box[0]
    reach('fault')
    default = kw.get('default', None if 'skip_exc' in kw else '_MISSING')
    skip_exc = kw.get('skip_exc', () if default == '_MISSING' else GlomError)
    debug = kw.get('glom_debug', False)
    if not isinstance(o, Exception):
        # BaseException subclasses pass through untouched -- unless the caller asked for them with skip_exc
        if skip_exc != () and isinstance(o, skip_exc) and site not in (7, 9, 10):
            reach('base_defaulted')
            return (out[0] == 'ret' and out[1] is default) or fail(why='skip_exc names this BaseException: default expected', out=out, kw=kw)
        if site in (7, 9, 10) and skip_exc != () and isinstance(o, skip_exc):
            return True       # Check / Match / nested glom sites: only Exception subclasses are translated there; not asserted
        return (out[0] == 'exc' and out[1] is o) or fail(why='BaseException must pass through untouched', out=out)
    try:
        type('W', (type(o), GlomError), {})(*o.args)
        recreatable = True
    except Exception:
        recreatable = False
    if site == 10:
        # the inner glom() call already applied the table to o: what reaches the outer call is an instance of type(o)
        # that is also a GlomError whenever the class can be rebuilt from its args -- that is the "origin" for the outer call
        def sub(cls_tuple):
            return issubclass(type(o), cls_tuple) or ((recreatable or isinstance(o, GlomError)) and issubclass(GlomError, cls_tuple))
        m10 = sub(skip_exc) if skip_exc != () else False
        if m10 and default != '_MISSING':
            return (out[0] == 'ret' and out[1] is default) or fail(why='nested: default expected', out=out)
        return (out[0] == 'exc' and isinstance(out[1], type(o)) and out[1].args == o.args) or fail(why='nested glom', out=out)
    # documented translations / absorptions at the site itself
    if site == 7:
        origin_cls, translated = CheckError, True
    elif site == 9:
        origin_cls, translated = MatchError, True
    elif site == 4 and isinstance(o, ArithmeticError):
        origin_cls, translated = CoalesceError, True
    elif (site == 11 and isinstance(o, AttributeError)) or (site == 12 and isinstance(o, (KeyError, IndexError, TypeError))) or site == 13:
        # an access step: the classes documented as "could not access" are glom's own PathAccessError, everything else
        # raised by the user code behind T.attr / T[key] keeps its class (a string path treats every Exception as a miss)
        origin_cls, translated = PathAccessError, True
    else:
        origin_cls, translated = type(o), False
    matches = issubclass(origin_cls, skip_exc) if skip_exc != () else False
    if matches and default != '_MISSING':
        reach('defaulted')
        return (out[0] == 'ret' and out[1] is default) or fail(why='the default object itself must be returned', out=out, kw=kw)
    if out[0] == 'ret':
        return fail(why='returned although the error does not match skip_exc', out=out, kw=kw, o=o)
    e = out[1]
    reach('propagated')
    if translated:
        return (isinstance(e, origin_cls) and isinstance(e, GlomError)) or fail(why='translated class', e=e, origin_cls=origin_cls)
    if debug:
        return e is o or fail(why='glom_debug must propagate the original object', e=e, o=o)
    if not isinstance(e, type(o)):
        return fail(why='class lost', e=e, o=o)
    if e.args != o.args:
        return fail(why='args differ', eargs=e.args, oargs=o.args)
    if recreatable and not isinstance(e, GlomError):
        return fail(why='not a GlomError although the class can be rebuilt from its args', e=e)
    if hasattr(o, 'code') and getattr(e, 'code', None) != o.code and not recreatable:
        return fail(why='attribute lost on a non-recreatable exception (must be the original)', e=e)
    return True


NOWN = 17


def own_failures(which: int, x: int, kwi: int) -> bool:
    """failures detected by glom itself are the documented GlomError subtype (and default applies to them)"""
    start()
    cases = [
        ({'a': x}, 'a.b', PathAccessError),
        ({'a': x}, 'zz', PathAccessError),
        ({}, Coalesce('a', 'b'), CoalesceError),
        (x, ['a'], UnregisteredTarget),
        (x, 5, TypeError),
        (x, Match(str), TypeMatchError),
        (x, Match('lit'), MatchError),
        (x, Check(type=str), CheckError),
        ([x], Assign('5', 1), PathAssignError),
        ({'a': x}, Delete('b'), PathDeleteError),
        (x, Fold(T, init=int), FoldError),
        ([x], Group('nope'), BadSpec),
        ([x], Limit(1), BadSpec),
        (x, (M > x), MatchError),
        ((x,), Assign('0', 1), UnregisteredTarget),      # immutable container: no assign handler registered (as the suite asserts)
        ({'rows': x}, Sum(('rows', [T])), UnregisteredTarget),   # the SUBSPEC of a fold fails: its error keeps its class
        ({'rows': x}, Flatten(('rows', [T])), UnregisteredTarget),
    ]
    target, spec, cls = cases[which]
    kw = dict(KW[kwi])
    if kw.get('default') == 'D':
        kw['default'] = DEFAULT_OBJ
    if kw.get('skip_exc') == 'MYBASE':
        kw['skip_exc'] = MyBase
    default = kw.get('default', None if 'skip_exc' in kw else '_MISSING')
    skip_exc = kw.get('skip_exc', () if default == '_MISSING' else GlomError)
    out = run(lambda: glom(target, spec, **kw))
    reach('own')
    eff_cls = type('Eff', (cls, GlomError), {}) if not issubclass(cls, GlomError) else cls
    matches = issubclass(eff_cls if kw.get('glom_debug') is not True else cls, skip_exc) if skip_exc != () else False
    if not issubclass(cls, GlomError):
        # a plain TypeError from AUTO: at its origin it is a TypeError, not yet a GlomError
        matches = issubclass(cls, skip_exc) if skip_exc != () else False
    if matches and default != '_MISSING':
        return (out.kind == 'ok' and out.value is default) or fail(why='default expected', out=out, kw=kw)
    if out.kind != 'err':
        return fail(why='expected failure', out=out)
    e = out.exc
    if kw.get('glom_debug'):
        return isinstance(e, cls) or fail(why='class', e=e)
    return (isinstance(e, cls) and isinstance(e, GlomError)) or fail(why='documented GlomError subtype', e=e, cls=cls)


def obligations(tier):
    q = tier == 'quick'
    obs = []
    nkw = len(KW)
    for site in range(NSITE):
        for exc in range(NEXC):
            pre = '0 <= kwi < %d' % nkw
            if site == 7:
                pre += ' and 0 <= a <= 2'
            fx = {'site': site, 'exc': exc}
            if site == 3:
                pre += ' and len(xs) <= 3'
            else:
                fx['xs'] = []
                fx['thr'] = 0
            obs.append(Ob(fault_matrix, fixed=fx, pre=pre, name='fault_%s_%s' % (SITE_NAMES[site], EXC_NAMES[exc])))
    for e1 in range(len(PAIR_CLASSES)):
        obs.append(Ob(fault_pair, fixed={'e1': e1, 'site1': 0, 'site2': 2}, pre='0 <= e2 < %d and (kwi == 0 or kwi == 4 or kwi == 6)' % len(PAIR_CLASSES),
                      name='fault_pair_%d' % e1))
    for which in range(NOWN):
        obs.append(Ob(own_failures, fixed={'which': which}, pre='0 <= kwi < %d' % nkw, name='own_failures_%d' % which))
    obs.append(Ob(fault_matrix, fixed={'site': 3, 'exc': 1}, pre='0 <= kwi < 8 and len(xs) <= 3', twin='no_fault', name='fault_list_ValueError'))
    obs.append(Ob(fault_matrix, fixed={'site': 3, 'exc': 1}, pre='0 <= kwi < 8 and len(xs) <= 3', twin='defaulted', name='fault_list_ValueError'))
    obs.append(Ob(fault_matrix, fixed={'site': 3, 'exc': 1}, pre='0 <= kwi < 8 and len(xs) <= 3', twin='propagated', name='fault_list_ValueError'))
    obs.append(Ob(own_failures, fixed={'which': 0}, pre='0 <= kwi < 8', twin='own', name='own_failures_0'))
    obs.append(Ob(fault_pair, fixed={'e1': 0, 'site1': 0, 'site2': 2}, pre='0 <= e2 < %d and (kwi == 0 or kwi == 4 or kwi == 6)' % len(PAIR_CLASSES), twin='same_name', name='fault_pair_0'))
    return obs
