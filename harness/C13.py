"""C13 -- Handlers are chosen by nearest registered type, immediately and in isolation."""
import abc
from typing import List

import glom as glom_pkg
from glom import glom, T, Path, Glommer, assign, delete, GlomError, PathAccessError
from glom.core import TargetRegistry, UnregisteredTarget
import glom.core as gc

from vkit.common import start, reach, fail, known_open, concretize, OUT, run
from vkit.ob import Ob
import vkit.stubs  # noqa: F401

META = {
    'explanation': 'TargetRegistry.register/_register_fuzzy_type/get_handler/_get_closest_type are executed on N virtual types '
                   'whose metaclass answers issubclass/isinstance from a SYMBOLIC boolean matrix constrained to be a partial '
                   'order -- all chains, diamonds, forests and virtual-subclass arrangements at once -- under every order of '
                   'registrations with symbolic exact flags and lookups between registrations; the chosen handler must be the '
                   'exact-type entry, else a minimal non-exact registered ancestor, else UnregisteredTarget, independent of '
                   'registration order where unique and of earlier lookups. Concrete class families are then observed through '
                   'glom(), assign() and delete() on the default registry, Glommer() and Glommer(register_default_types=False), '
                   'and registries are checked for mutual isolation.',
    'bounds': {
        'quick': {'virtual types': 3, 'registrations': '<= 3 in every order', 'lookups': 'after every registration, for every type',
                  'class families': 6, 'registry flavours': 3,
                  'paths crossing types': '3-segment paths over nodes of Base > Mid > Leaf, every subset of registered types x exact flags x 3 spellings',
                  'spec objects re-used': 'Delete / Assign / Path evaluated before and after a re-registration and on two registries'},
        'thorough': {'virtual types': '3 and 4', 'registrations': '<= 3 (N=4) / 3 (N=3)'},
    },
    'stubs': ['S4 state reset (module registry restored from the import-time snapshot)'],
    'outside_claim': ['more than 4 types in one hierarchy', 'handlers for user-defined operations'],
    'assumptions': ['where several minimal registered ancestors exist (e.g. two unrelated mixins) any of them is acceptable'],
}

_REL = [None]


class VMeta(type):
    def __subclasscheck__(cls, sub):
        if type(sub) is VMeta:
            return _REL[0][sub.idx][cls.idx]
        return False

    def __instancecheck__(cls, obj):
        t = type(obj)
        if type(t) is VMeta:
            return _REL[0][t.idx][cls.idx]
        return False


V = [VMeta('V%d' % i, (), {'idx': i}) for i in range(4)]
HANDLERS = [(lambda o, k, i=i: ('H', i)) for i in range(4)]


def _partial_order(rel, n):
    for i in range(n):
        for j in range(n):
            if i != j and rel[i][j] and rel[j][i]:
                return False
            for k in range(n):
                if rel[i][j] and rel[j][k] and not rel[i][k]:
                    return False
    return True


def _acceptable(rel, regd, t):
    """set of acceptable winners: exact-type entry, else minimal non-exact registered ancestors, else 'UNREG'"""
    if any(r == t for r, _ in regd):
        return [t]
    anc = [r for r, ex in regd if not ex and rel[t][r]]
    if not anc:
        return ['UNREG']
    return [a for a in anc if not any(b != a and rel[b][a] for b in anc)]


def _lookup(reg, t):
    obj = V[t]()
    try:
        h = reg.get_handler('get', obj)
    except UnregisteredTarget:
        return 'UNREG'
    return h(obj, 'zz')[1]


def virt3(r01: bool, r02: bool, r10: bool, r12: bool, r20: bool, r21: bool, nreg: int, a: int, b: int, c: int,
          ea: bool, eb: bool, ec: bool, probe_between: bool) -> bool:
    """3 virtual types, registrations a, b, c (distinct, nreg of them used), lookups for every type"""
    start()
    rel = [[True, r01, r02], [r10, True, r12], [r20, r21, True]]
    if not _partial_order(rel, 3):
        return True
    if not (a != b and a != c and b != c):
        return True
    _REL[0] = rel
    reg = TargetRegistry(register_default_types=False)
    regd = []
    events = [(a, ea), (b, eb), (c, ec)][:nreg]
    for ty, ex in events:
        reg.register(V[ty], get=HANDLERS[ty], exact=ex)
        regd.append((ty, ex))
        if probe_between or len(regd) == nreg:
            # every lookup after a register() must already see it (memo reset), for every type
            for t in range(3):
                got = _lookup(reg, t)
                ok = _acceptable(rel, regd, t)
                if got not in ok:
                    return fail(why='not a nearest registered type', got=got, acceptable=ok, regd=regd, t=t, rel=rel)
                if len(ok) == 1 and ok[0] != 'UNREG' and ok[0] != t:
                    reach('ancestor')
                if got == 'UNREG':
                    reach('unreg')
    # order independence where the answer is unique: replay the registrations reversed, no probes in between
    reg2 = TargetRegistry(register_default_types=False)
    for ty, ex in reversed(events):
        reg2.register(V[ty], get=HANDLERS[ty], exact=ex)
    for t in range(3):
        ok = _acceptable(rel, regd, t)
        if len(ok) == 1 and _lookup(reg2, t) != ok[0]:
            return fail(why='depends on registration order', t=t, regd=regd, rel=rel, got=_lookup(reg2, t), exp=ok)
    reach('virt3')
    return True


def virt4(r01: bool, r02: bool, r03: bool, r10: bool, r12: bool, r13: bool, r20: bool, r21: bool, r23: bool,
          r30: bool, r31: bool, r32: bool, a: int, b: int, ea: bool, eb: bool, t: int) -> bool:
    """4 virtual types, two registrations, one lookup"""
    start()
    rel = [[True, r01, r02, r03], [r10, True, r12, r13], [r20, r21, True, r23], [r30, r31, r32, True]]
    if not _partial_order(rel, 4):
        return True
    if a == b:
        return True
    _REL[0] = rel
    reg = TargetRegistry(register_default_types=False)
    regd = []
    for ty, ex in [(a, ea), (b, eb)]:
        reg.register(V[ty], get=HANDLERS[ty], exact=ex)
        regd.append((ty, ex))
    got = _lookup(reg, t)
    ok = _acceptable(rel, regd, t)
    reach('virt4')
    return got in ok or fail(why='not a nearest registered type', got=got, acceptable=ok, regd=regd, t=t, rel=rel)


def virt4r(r01: bool, r02: bool, r03: bool, r10: bool, r12: bool, r13: bool, r20: bool, r21: bool, r23: bool,
           r30: bool, r31: bool, r32: bool, a: int, b: int, c: int, d: int, t: int) -> bool:
    """4 virtual types, FOUR registration events a, b, c, d (repetition = re-registration allowed, all non-exact), then a
    lookup: still a nearest registered type"""
    start()
    rel = [[True, r01, r02, r03], [r10, True, r12, r13], [r20, r21, True, r23], [r30, r31, r32, True]]
    if not _partial_order(rel, 4):
        return True
    _REL[0] = rel
    reg = TargetRegistry(register_default_types=False)
    regd = []
    for ty in (a, b, c, d):
        reg.register(V[ty], get=HANDLERS[ty])
        if not any(r == ty for r, _ in regd):
            regd.append((ty, False))
    got = _lookup(reg, t)
    ok = _acceptable(rel, regd, t)
    reach('virt4r')
    if len(set((a, b, c, d))) < 4:
        reach('reregistered')
    return got in ok or fail(why='not a nearest registered type after re-registration', got=got, acceptable=ok, events=(a, b, c, d), t=t, rel=rel)


# ---- concrete class families, observed through the public API ---------------------------------------
def _families():
    class A:
        pass

    class B(A):
        pass

    class C(B):
        pass

    class D0:
        pass

    class D1(D0):
        pass

    class D2(D0):
        pass

    class D3(D1, D2):
        pass

    class M:
        pass

    class X:
        pass

    class XM(X, M):
        pass

    class S0:
        __slots__ = ()

    class S1(S0):
        __slots__ = ()

    class L(list):
        __slots__ = ()

    class LL(L):
        __slots__ = ()

    class Vb(abc.ABC):
        __slots__ = ()

    class W:
        __slots__ = ()
    Vb.register(W)

    class W2(W):
        __slots__ = ()
    return [[A, B, C], [D0, D1, D2, D3], [M, X, XM], [S0, S1], [L, LL], [Vb, W, W2]]


FAMS = _families()
FAM_NAMES = ['chain', 'diamond', 'mixin', 'slots_chain', 'list_sub', 'abc_virtual']


def _oracle_real(regd, t):
    if any(r is t for r, _ in regd):
        return [t]
    anc = [r for r, ex in regd if not ex and issubclass(t, r)]
    if not anc:
        return ['UNREG']
    return [a for a in anc if not any(b is not a and issubclass(b, a) for b in anc)]


def _mk_registry(flavour):
    if flavour == 0:
        g = Glommer(register_default_types=False)
        return g, g.register, g.glom
    if flavour == 1:
        g = Glommer()
        return g, g.register, g.glom
    return None, glom_pkg.register, glom


def real_family(fam: int, flavour: int, i0: int, i1: int, e0: bool, e1: bool, nreg: int, op: int) -> bool:
    """fam: class family; flavour 0 bare Glommer, 1 default Glommer, 2 module registry; registrations i0, i1 with
    exact flags; op: 0 get via glom(obj, 'x'), 1 iterate via [T], 2 assign, 3 delete"""
    start()
    types = FAMS[fam]
    n = len(types)
    i0, i1, nreg = concretize(i0, 0, 3), concretize(i1, 0, 3), concretize(nreg, 1, 2)
    if i0 is OUT or i1 is OUT or nreg is OUT:
        return True
    if not (i0 < n and i1 < n and i0 != i1):
        return True
    _, register, do_glom = _mk_registry(flavour)
    log = []
    regd = []
    for i, ex in [(i0, e0), (i1, e1)][:nreg]:
        kw = {
            'get': (lambda o, k, i=i: ('G', i)),
            'iterate': (lambda o, i=i: iter([('I', i)])),
            'assign': (lambda o, k, v, i=i: log.append(('A', i))),
            'delete': (lambda o, k, i=i: log.append(('D', i))),
        }
        register(types[i], exact=ex, **kw)
        regd.append((types[i], ex))
    for t in types:
        ok = _oracle_real(regd, t)
        if ok == ['UNREG'] and flavour != 0:
            continue          # falls back to a default type: not the subject here
        obj = t()
        del log[:]
        if op == 0:
            got = run(lambda: do_glom(obj, 'x', glom_debug=True))
            tag = got.value[1] if got.kind == 'ok' and isinstance(got.value, tuple) and got.value[0] == 'G' else None
        elif op == 1:
            got = run(lambda: do_glom(obj, [T], glom_debug=True))
            tag = got.value[0][1] if got.kind == 'ok' and got.value and isinstance(got.value[0], tuple) and got.value[0][0] == 'I' else None
        elif op == 2:
            got = run(lambda: do_glom(obj, glom_pkg.Assign('x', 1), glom_debug=True))
            tag = log[0][1] if log else None
        else:
            got = run(lambda: do_glom(obj, glom_pkg.Delete('x'), glom_debug=True))
            tag = log[0][1] if log else None
        if ok == ['UNREG']:
            if got.kind == 'err' and isinstance(got.exc, UnregisteredTarget):
                reach('real_unreg')
                continue
            return fail(why='expected UnregisteredTarget', got=got, t=t.__name__, regd=regd)
        winners = [types.index(w) for w in ok]
        if tag in winners:
            reach('real_hit')
            if types[tag] is not t:
                reach('real_ancestor')
            continue
        duck = hasattr(obj, '__dict__') or callable(getattr(t, '__iter__', None))
        if (flavour != 0 and duck and tag is None and not any(r is t for r, _ in regd)
                and known_open('known_C13_duck_type_shadows_registration')):
            # known finding: on a registry with default types the duck types _ObjStyleKeys / _AbstractIterable precede a
            # user-registered ancestor in the type tree and match first; only instances of a strict subclass are
            # affected and the symptom is that *no* user handler is used (the default behaviour applies)
            continue
        return fail(why='handler of a nearest registered type not used', tag=tag, winners=winners, t=t.__name__,
                    regd=[(r.__name__, e) for r, e in regd], got=got, op=op, flavour=flavour)
    return True


def exact_false(fam: int, flavour: int, i0: int, i1: int, op: int) -> bool:
    """an exact registration that says "unsupported" (handler False) beats a supporting ancestor; and a re-registration of
    the same type that names another operation keeps covering subclasses for the operations it does not name"""
    start()
    types = FAMS[fam]
    n = len(types)
    i0, i1, op = concretize(i0, 0, 3), concretize(i1, 0, 3), concretize(op, 0, 1)
    if i0 is OUT or i1 is OUT or op is OUT or not (i0 < n and i1 < n) or not issubclass(types[i1], types[i0]) or i0 == i1:
        return True
    _, register, do_glom = _mk_registry(flavour)
    anc, sub = types[i0], types[i1]
    if op == 0:
        register(anc, get=(lambda o, k: 'anc-get'), iterate=(lambda o: iter(['anc-it'])))
        register(sub, exact=True, iterate=False, get=(lambda o, k: 'sub-get'))
        r_it = run(lambda: do_glom(sub(), [T], glom_debug=True))
        r_get = run(lambda: do_glom(sub(), 'x', glom_debug=True))
        reach('exact_false')
        if not (r_it.kind == 'err' and isinstance(r_it.exc, UnregisteredTarget)):
            return fail(why='exact registration with iterate=False must win over the ancestor', r_it=r_it)
        return (r_get.kind == 'ok' and r_get.value == 'sub-get') or fail(why='exact get handler', r_get=r_get)
    # op == 1: register X exact, then X again without exact naming only another op; a subclass instance uses X's handlers
    class Sub(sub):
        __slots__ = ()
    register(anc, get=(lambda o, k: 'anc-get'), iterate=(lambda o: iter(['anc-it'])))
    register(sub, exact=True, get=(lambda o, k: 'sub-get'))
    register(sub, iterate=(lambda o: iter(['sub-it'])))
    r_get = run(lambda: do_glom(Sub(), 'x', glom_debug=True))
    r_it = run(lambda: do_glom(Sub(), [T], glom_debug=True))
    reach('rereg_ops')
    duck = flavour != 0 and hasattr(Sub(), '__dict__')
    if duck and known_open('known_C13_duck_type_shadows_registration'):
        return True
    ok = r_get.kind == 'ok' and r_get.value == 'sub-get' and r_it.kind == 'ok' and r_it.value == ['sub-it']
    return ok or fail(why='after re-registration without exact the type covers its subclasses for every operation', r_get=r_get, r_it=r_it)


# ---- handler choice is made afresh for EVERY object met along a path, and on every evaluation of a spec object ---------
class NBase:
    __slots__ = ('kids',)

    def __init__(self, **kids):
        self.kids = kids


class NMid(NBase):
    __slots__ = ()


class NLeaf(NMid):
    __slots__ = ()


NFAM = [NBase, NMid, NLeaf]
HLOG = []


def _mk_get(tag):
    def get(obj, name):
        HLOG.append(tag)
        return obj.kids[name]
    return get


def path_crossing(t0: int, t1: int, t2: int, reg: int, ex: int, style: int) -> bool:
    """a three-segment path walks root -> kid -> kid; every node is an instance of one of Base > Mid > Leaf; a bare registry
    has get handlers for the subset `reg` of these types (bit mask), `ex` marks which of them are exact: each step uses the
    handler of ITS OWN node -- exact entry of its type, else nearest non-exact registered ancestor, else UnregisteredTarget"""
    start()
    t0, t1, t2 = concretize(t0, 0, 2), concretize(t1, 0, 2), concretize(t2, 0, 2)
    reg, ex, style = concretize(reg, 1, 7), concretize(ex, 0, 7), concretize(style, 0, 2)
    if OUT in (t0, t1, t2, reg, ex, style):
        return True
    g = Glommer(register_default_types=False)
    regd = {}
    for i, cls in enumerate(NFAM):
        if reg & (1 << i):
            exact = bool(ex & (1 << i))
            g.register(cls, get=_mk_get(i), exact=exact)
            regd[cls] = (i, exact)
    leaf = NFAM[t2](c='value')
    root = NFAM[t0](a=NFAM[t1](b=leaf))
    nodes = [root, root.kids['a'], leaf]

    def choose(obj):
        X = type(obj)
        if X in regd:
            return regd[X][0]
        best = None
        for cls in X.__mro__[1:]:
            if cls in regd and not regd[cls][1]:
                best = regd[cls][0]
                break
        return best
    exp_log, exp_err = [], False
    for nd in nodes:
        tag = choose(nd)
        if tag is None:
            exp_err = True
            break
        exp_log.append(tag)
    spec = ['a.b.c', Path('a', 'b', 'c'), ('a', 'b.c')][style]
    del HLOG[:]
    got = run(lambda: g.glom(root, spec, glom_debug=True))
    reach('path_crossing')
    if len(set(type(n) for n in nodes)) > 1 and not exp_err:
        reach('crossing_types')
    if exp_err:
        return (got.kind == 'err' and isinstance(got.exc, UnregisteredTarget) and HLOG == exp_log) or fail(why='an unregistered node must raise UnregisteredTarget', got=got, log=list(HLOG), exp_log=exp_log)
    return (got.kind == 'ok' and got.value == 'value' and HLOG == exp_log) or fail(why="each step uses its own node's handler", got=got, log=list(HLOG), exp_log=exp_log, types=[t0, t1, t2], reg=reg, ex=ex)


def spec_reuse(kind: int, how: int, v: int) -> bool:
    """ONE spec object (Delete / Assign / Path) evaluated twice: after a re-registration in between, or on two different
    registries -- each evaluation uses the handler registered THERE and THEN"""
    start()
    kind, how = concretize(kind, 0, 2), concretize(how, 0, 2)
    if kind is OUT or how is OUT:
        return True
    log = []

    def mk(tag):
        return dict(get=lambda o, k: (log.append(('get', tag)), o.kids[k])[1],
                    assign=lambda o, k, val: (log.append(('assign', tag)), o.kids.__setitem__(k, val), o)[2],
                    delete=lambda o, k: (log.append(('delete', tag)), o.kids.__delitem__(k))[1])
    spec = [glom_pkg.Delete(Path('a', 'k')), glom_pkg.Assign(Path('a', 'k'), v), Path('a', 'k')][kind]
    opname = ['delete', 'assign', 'get'][kind]

    def target():
        return NBase(a=NMid(k=1))
    if how == 0:
        ga = gb = Glommer(register_default_types=False)
        ga.register(NBase, **mk('first'))
        r1 = run(lambda: ga.glom(target(), spec, glom_debug=True))
        ga.register(NMid, **mk('second'))                      # a more specific registration arrives between the evaluations
    elif how == 1:
        ga, gb = Glommer(register_default_types=False), Glommer(register_default_types=False)
        ga.register(NBase, **mk('first'))
        gb.register(NBase, **mk('second'))
        r1 = run(lambda: ga.glom(target(), spec, glom_debug=True))
    else:
        ga = gb = Glommer(register_default_types=False)
        ga.register(NMid, **mk('first'))
        ga.register(NBase, **mk('first'))
        r1 = run(lambda: ga.glom(target(), spec, glom_debug=True))
        ga.register(NMid, **mk('second'))                      # re-registration of the very same type
    n1 = len(log)
    r2 = run(lambda: gb.glom(target(), spec, glom_debug=True))
    reach('spec_reuse')
    if r1.kind != 'ok' or r2.kind != 'ok':
        return fail(why='both evaluations succeed', r1=r1, r2=r2)
    first = [e for e in log[:n1] if e[0] == opname]
    second = [e for e in log[n1:] if e[0] == opname]
    # the entry that matters is the last one: the operation on the NMid node reached through 'a'
    return (first[-1:] == [(opname, 'first')] and second[-1:] == [(opname, 'second')]) or fail(why='the second evaluation must use the handler registered for it', first=first, second=second, kind=kind, how=how)


class Tgt:
    def __init__(self):
        self.x = 'attr'

    def __eq__(self, other):
        return type(other) is Tgt and self.__dict__ == other.__dict__

    __hash__ = None


def isolation(order: int, which: int) -> bool:
    """registrations on one registry are invisible to the others; default Glommer == module glom"""
    start()
    ga, gb = Glommer(), Glommer()
    h = lambda o, k: 'handler-a'
    h2 = lambda o, k: 'handler-mod'
    steps = [[0, 1, 2], [0, 2, 1], [1, 0, 2], [1, 2, 0], [2, 0, 1], [2, 1, 0]][order]
    seen = []
    for s in steps:
        if s == 0:
            ga.register(Tgt, get=h)
        elif s == 1:
            glom_pkg.register(Tgt, get=h2)
        else:
            seen.append((gb.glom(Tgt(), 'x'), ga.glom(Tgt(), 'x') if which else None))
    reach('isolation')
    a, b, m = ga.glom(Tgt(), 'x'), gb.glom(Tgt(), 'x'), glom(Tgt(), 'x')
    if not (a == 'handler-a' and b == 'attr' and m == 'handler-mod'):
        return fail(why='registries not isolated', a=a, b=b, m=m)
    if any(s[0] != 'attr' for s in seen):
        return fail(why='Glommer B saw a foreign registration', seen=seen)
    # a Glommer created after a module-level registration still starts from the default types only
    gc_ = Glommer()
    return gc_.glom(Tgt(), 'x') == 'attr' or fail(why='new Glommer inherited module registration')


def glommer_default(shape: int, x: int, y: int) -> bool:
    """a default Glommer behaves like the module-level glom"""
    start()
    shape = concretize(shape, 0, 11)
    if shape is OUT:
        return True
    t = {'a': {'b': [x, y]}, 'o': Tgt(), 'n': None}
    spec = ['a.b.0', 'a.b.5', ('a.b', [T]), {'k': 'o.x', 'l': ('a', 'b', len)}, 'n.zz', 'a.*.1', ('a.b', sum),
            (glom_pkg.Assign('a.c', x), 'a.c'), (glom_pkg.Delete('a.b'), 'a'), (glom_pkg.Assign('o.y', y), 'o.y'),
            (glom_pkg.Assign(Path('a', 'b', 0), y), 'a.b'), glom_pkg.Delete('a.zz', ignore_missing=True)][shape]
    g = Glommer()
    import copy
    t2 = copy.deepcopy(t)
    r1 = run(lambda: g.glom(t, spec, glom_debug=True))
    r2 = run(lambda: glom(t2, spec, glom_debug=True))
    reach('glommer_default')
    if r1.kind != r2.kind:
        return fail(r1=r1, r2=r2)
    if r1.kind == 'err':
        return type(r1.exc) is type(r2.exc) or fail(r1=r1, r2=r2)
    return r1.value == r2.value or fail(r1=r1, r2=r2)


def obligations(tier):
    q = tier == 'quick'
    obs = []
    perms = [(0, 1, 2), (0, 2, 1), (1, 0, 2), (1, 2, 0), (2, 0, 1), (2, 1, 0)]
    for nreg in (1, 2, 3):
        for (a, b, c) in perms:
            if nreg == 1 and (b, c) != tuple(sorted((b, c))):
                continue
            if nreg == 2 and q and (a, b, c) not in [(0, 1, 2), (1, 0, 2), (2, 1, 0), (1, 2, 0)]:
                continue
            if nreg == 3 and q and (a, b, c) not in [(0, 1, 2), (2, 1, 0), (1, 2, 0)]:
                continue
            for pb in ((False,) if (nreg in (1, 2) or q) else (False, True)):
                fx = {'nreg': nreg, 'a': a, 'b': b, 'c': c, 'probe_between': pb or nreg == 2}
                if nreg < 3:
                    fx['ec'] = False
                if nreg < 2:
                    fx['eb'] = False
                obs.append(Ob(virt3, fixed=fx, name='virt3_n%d_%d%d%d_p%d' % (nreg, a, b, c, fx['probe_between']), timeout=200 if not q else 150))
    if not q:
        for a in range(4):
            for b in range(4):
                if a != b:
                    obs.append(Ob(virt4, fixed={'a': a, 'b': b}, pre='0 <= t <= 3', name='virt4_%d%d' % (a, b), timeout=600))
    # re-registration histories on 4 types (the lookup type is never registered itself: t = 3, events over 0..2)
    import itertools
    if q:
        pats = [(x, y, z, w) for x, y, z in itertools.permutations(range(3)) for w in (x, y, z)]
    else:
        pats = list(itertools.product(range(3), repeat=4))
    for (a, b, c, d) in pats:
        obs.append(Ob(virt4r, fixed={'a': a, 'b': b, 'c': c, 'd': d, 't': 3}, name='virt4r_%d%d%d%d' % (a, b, c, d), timeout=300))
    for fam in range(len(FAMS)):
        for flavour in range(3):
            for op in range(4):
                if q and op in (1, 3) and flavour == 2:
                    continue
                pre = '0 <= i0 <= 3 and 0 <= i1 <= 3 and 1 <= nreg <= 2'
                obs.append(Ob(real_family, fixed={'fam': fam, 'flavour': flavour, 'op': op}, pre=pre,
                              name='real_family_%s_f%d_op%d' % (FAM_NAMES[fam], flavour, op), timeout=120))
    for fam in (0, 1, 3, 4):
        for flavour in (0, 1):
            obs.append(Ob(exact_false, fixed={'fam': fam, 'flavour': flavour}, pre='0 <= i0 <= 3 and 0 <= i1 <= 3 and 0 <= op <= 1',
                          name='exact_false_%s_f%d' % (FAM_NAMES[fam], flavour)))
    obs.append(Ob(isolation, pre='0 <= order <= 5 and 0 <= which <= 1', name='isolation'))
    for t0 in range(3):
        for style in range(3):
            obs.append(Ob(path_crossing, fixed={'t0': t0, 'style': style}, pre='0 <= t1 <= 2 and 0 <= t2 <= 2 and 1 <= reg <= 7 and 0 <= ex <= 7',
                          name='path_crossing_%d_s%d' % (t0, style), timeout=240))
    obs.append(Ob(path_crossing, fixed={'t0': 0, 'style': 0}, pre='0 <= t1 <= 2 and 0 <= t2 <= 2 and 1 <= reg <= 7 and 0 <= ex <= 7',
                  twin='crossing_types', name='path_crossing_0_s0'))
    obs.append(Ob(spec_reuse, pre='0 <= kind <= 2 and 0 <= how <= 2', name='spec_reuse'))
    obs.append(Ob(spec_reuse, pre='0 <= kind <= 2 and 0 <= how <= 2', twin='spec_reuse', name='spec_reuse'))
    obs.append(Ob(glommer_default, pre='0 <= shape <= 11', name='glommer_default'))
    obs.append(Ob(virt3, fixed={'nreg': 2, 'a': 0, 'b': 1, 'c': 2, 'ec': False, 'probe_between': True}, twin='ancestor', name='virt3_n2'))
    obs.append(Ob(virt3, fixed={'nreg': 2, 'a': 0, 'b': 1, 'c': 2, 'ec': False, 'probe_between': True}, twin='unreg', name='virt3_n2'))
    obs.append(Ob(real_family, fixed={'fam': 0, 'flavour': 0, 'op': 0}, pre='0 <= i0 <= 3 and 0 <= i1 <= 3 and 1 <= nreg <= 2', twin='real_ancestor', name='real_family_chain'))
    obs.append(Ob(real_family, fixed={'fam': 0, 'flavour': 0, 'op': 0}, pre='0 <= i0 <= 3 and 0 <= i1 <= 3 and 1 <= nreg <= 2', twin='real_unreg', name='real_family_chain'))
    obs.append(Ob(virt4r, fixed={'a': 0, 'b': 1, 'c': 2, 'd': 0, 't': 3}, twin='reregistered', name='virt4r_0120'))
    return obs
