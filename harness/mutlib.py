"""Shared builders and reference semantics for C11 (assign) and C12 (delete)."""
import copy
from collections import OrderedDict

from glom import Path, T, S

SEGS = ['a', 'b', 'c', '0', 'x', 'k', '1', '5']


class Obj:
    def __init__(self, **kw):
        self.__dict__.update(kw)

    def __eq__(self, o):
        return type(o) is type(self) and self.__dict__ == o.__dict__

    def __repr__(self):
        return 'Obj(%r)' % self.__dict__


class RO:
    """read-only property `a`"""
    def __init__(self):
        self._v = 1

    @property
    def a(self):
        return self._v

    def __eq__(self, o):
        return type(o) is RO and self.__dict__ == o.__dict__


class Slots:
    __slots__ = ('a', 'b')

    def __init__(self, a):
        self.a = a

    def __eq__(self, o):
        return type(o) is Slots and getattr(self, 'a', None) == getattr(o, 'a', None) and getattr(self, 'b', None) == getattr(o, 'b', None)


class Boom(Exception):
    pass


class RaisingDict(dict):
    __slots__ = ()

    def __setitem__(self, k, v):
        raise Boom('setitem')

    def __delitem__(self, k):
        raise Boom('delitem')

    def __deepcopy__(self, memo):
        r = RaisingDict()
        dict.update(r, {k: copy.deepcopy(v, memo) for k, v in self.items()})
        return r


class RaisingObj:
    def __init__(self):
        self.__dict__['a'] = 1

    def __setattr__(self, k, v):
        raise Boom('setattr')

    def __delattr__(self, k):
        raise Boom('delattr')

    def __deepcopy__(self, memo):
        r = RaisingObj()
        r.__dict__.update(copy.deepcopy(self.__dict__, memo))
        return r

    def __eq__(self, o):
        return type(o) is RaisingObj and self.__dict__ == o.__dict__


class MyDict(dict):
    """ordinary user subclass (instances have a __dict__)"""


class MyList(list):
    pass


NFAM = 13
FAMILIES = ['dicts', 'lists', 'objs', 'odict', 'none', 'tuple', 'ro', 'empty', 'slots', 'raising_dict', 'raising_obj',
            'mydict', 'mylist']


def family(fam, v):
    """fresh target; v is a (symbolic) leaf"""
    if fam == 0:
        return {'a': {'b': {'c': v}, 'k': 2}, 'z': [1]}
    if fam == 1:
        return {'a': [{'b': v}, [1, 2], (3, 4)], 'z': [1]}
    if fam == 2:
        return {'a': Obj(b=Obj(c=v), k=2), 'z': [1]}
    if fam == 3:
        return OrderedDict([('a', OrderedDict([('b', v)])), ('z', [1])])
    if fam == 4:
        return {'a': None, 'z': [1]}
    if fam == 5:
        return {'a': (v, {'b': 2}), 'z': [1]}
    if fam == 6:
        return {'a': RO(), 'z': [1]}
    if fam == 7:
        return {}
    if fam == 8:
        return {'a': Slots({'c': v}), 'z': [1]}
    if fam == 9:
        return {'a': RaisingDict(b=v), 'z': [1]}
    if fam == 10:
        return {'a': RaisingObj(), 'z': [1]}
    if fam == 11:
        return {'a': MyDict(b=MyDict(c=v)), 'z': [1]}
    return {'a': MyList([v, MyList([1, 2])]), 'z': [1]}


def plain(t):
    """structure without identity, for == comparison (classes compare by their own __eq__)"""
    return copy.deepcopy(t)


def ids(t, depth=0):
    """identity skeleton of containers reachable through dict/list/tuple/Obj"""
    if isinstance(t, dict):
        return ('d', id(t), [(k, ids(v, depth + 1)) for k, v in t.items()])
    if isinstance(t, (list, tuple)):
        return ('l', id(t), [ids(v, depth + 1) for v in t])
    if isinstance(t, (Obj, RaisingObj, RO)):
        return ('o', id(t), [(k, ids(v, depth + 1)) for k, v in t.__dict__.items()])
    if isinstance(t, Slots):
        return ('s', id(t), [ids(getattr(t, 'a', None), depth + 1)])
    return ('v',)


def step_get(cur, op, seg):
    if op == 'P':
        if isinstance(cur, dict):
            return cur[seg]
        if isinstance(cur, (list, tuple)):
            return cur[int(seg)]
        return getattr(cur, seg)
    if op == '[':
        return cur[seg]
    return getattr(cur, seg)


def step_set(cur, op, seg, v):
    if op == 'P':
        if isinstance(cur, dict):
            cur[seg] = v
        elif isinstance(cur, list):
            cur[int(seg)] = v
        elif isinstance(cur, (tuple, str, int, float, frozenset, type(None))) and not isinstance(cur, bool):
            raise TypeError('unassignable')
        elif isinstance(cur, bool):
            raise TypeError('unassignable')
        else:
            setattr(cur, seg, v)
    elif op == '[':
        cur[seg] = v
    else:
        setattr(cur, seg, v)


def step_del(cur, op, seg):
    if op == 'P':
        if isinstance(cur, dict):
            del cur[seg]
        elif isinstance(cur, list):
            del cur[int(seg)]
        elif isinstance(cur, (tuple, str, int, float, frozenset, type(None))):
            raise TypeError('undeletable')
        else:
            delattr(cur, seg)
    elif op == '[':
        del cur[seg]
    else:
        delattr(cur, seg)


def ref_assign(t, steps, v, missing):
    """plain-Python nested assignment on a deep copy.
    returns ('ok', new_t, factory_calls) or ('err',)"""
    t = copy.deepcopy(t)
    cur = t
    for i, (op, s) in enumerate(steps[:-1]):
        try:
            cur = step_get(cur, op, s)
        except Exception:
            if missing is None:
                return ('err',)
            tail = v
            n = 0
            for op2, s2 in reversed(steps[i + 1:]):
                new = missing()
                n += 1
                try:
                    step_set(new, op2, s2, tail)
                except Exception:
                    return ('err',)
                tail = new
            try:
                step_set(cur, op, s, tail)
            except Exception:
                return ('err',)
            return ('ok', t, n)
    try:
        step_set(cur, steps[-1][0], steps[-1][1], v)
    except Exception:
        return ('err',)
    return ('ok', t, 0)


def ref_delete(t, steps, ignore):
    """returns ('ok', new_t) | ('err', 'PathAccessError' | 'PathDeleteError' | 'other')"""
    t = copy.deepcopy(t)
    cur = t
    for op, s in steps[:-1]:
        try:
            cur = step_get(cur, op, s)
        except Exception:
            return ('ok', t) if ignore else ('err', 'PathAccessError')
    try:
        step_del(cur, steps[-1][0], steps[-1][1])
    except (KeyError, IndexError, AttributeError, ValueError):
        return ('ok', t) if ignore else ('err', 'PathDeleteError')
    except Exception:
        return ('err', 'other')
    return ('ok', t)


def spell(segs, style):
    """(spec path, reference steps) for a list of string segments.
    style 0: dotted text, 1: Path(...), 2: T[...] item style (digits become int keys), 3: T.attr style"""
    if style == 0:
        return '.'.join(segs), [('P', s) for s in segs]
    if style == 1:
        return Path(*segs), [('P', s) for s in segs]
    if style == 2:
        t, steps = T, []
        for s in segs:
            key = int(s) if s.isdigit() else s
            t = t[key]
            steps.append(('[', key))
        return t, steps
    t, steps = T, []
    for s in segs:
        if s.isidentifier():
            t = getattr(t, s)
            steps.append(('.', s))
        else:
            key = int(s) if s.isdigit() else s
            t = t[key]
            steps.append(('[', key))
    return t, steps


def pick_segs(cs):
    out = []
    for c in cs:
        s = None
        for n in range(len(SEGS)):
            if c == n:
                s = SEGS[n]
        out.append(s)
    return out


# ---- ragged containers under 1-3 wildcards (C11 assign, C12 delete, C14) -------------------------------
def ragged(nw, sizes, final, a):
    """(root, leaves): nw nested list levels below root['r']; the container met at level l as the j-th child of its parent
    has (sizes[l] + j) % 3 children, so empty, one-element and two-element containers occur side by side and a whole level
    can be empty. Leaves (in document order) are addressed by the final segment: 0 dict key 'v', 1 list index 0, 2 attribute v."""
    leaves = []

    def leaf(i):
        lf = [{'v': a + i, 'keep': i}, [a + i, i], Obj(v=a + i, keep=i)][final]
        leaves.append(lf)
        return lf

    def build(level, j):
        if level == nw:
            return leaf(len(leaves))
        n = (sizes[level] + j) % 3
        return [build(level + 1, i) for i in range(n)]
    return {'r': build(0, 0)}, leaves


def ragged_path(nw, final, style):
    seg = ['v', '0', 'v'][final]
    if style == 0:
        return 'r' + '.*' * nw + '.' + seg
    if style == 1:
        return Path('r', *([T.__star__()] * nw + [seg if final != 1 else 0]))
    t = T['r']
    for _ in range(nw):
        t = t.__star__()
    return [t['v'], t[0], t.v][final]
