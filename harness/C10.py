"""C10 -- M, And, Or, Not, Switch and Check decide like the boolean expressions denoted."""
import operator
from typing import List

from glom import (glom, T, M, And, Or, Not, Switch, Match, MatchError, GlomError, Check, CheckError, Val, SKIP,
                  PathAccessError, Path)

from vkit.common import start, reach, fail, known_open, concretize, OUT, run
from vkit.ob import Ob
import vkit.stubs  # noqa: F401

META = {
    'explanation': 'One step of And/Or/Not/Switch over oracle children whose outcome is a decision variable (pass with a '
                   'symbolic value, MatchError, other GlomError, non-glom error), the six M comparison operators in all '
                   'spellings, combinator trees of depth 2 built with constructors and with & | ~ over symbolic '
                   'constants and targets, and every subset of Check keywords are executed by the real matching code '
                   'and compared with a short-circuit boolean reference (verdict, value rule, call log, error class).',
    'bounds': {
        'quick': {'children per combinator': '<= 3 (Switch: <= 3 cases)', 'tree depth': '2 (<= 3 atoms)',
                  'target and comparison constants': 'unbounded symbolic ints',
                  'Check': 'all 2^5 subsets of {type, instance_of, equal_to/one_of, validate, spec} x default'},
        'thorough': {'children per combinator': '<= 3', 'tree depth': '2 (<= 4 atoms)'},
    },
    'stubs': ['S3 glom_debug=True', 'S4 state reset'],
    'outside_claim': ['incomparable operand types (M > "a" on an int)', 'trees deeper than 2', 'Regex atoms (C09)'],
    'assumptions': ['an error raised by a child keeps its class when a combinator lets it propagate; only the '
                    "combinators' own rejections (Not, Switch) are required to be MatchError"],
}


class UserErr(Exception):
    pass


def oracle(kind, val, tag, log):
    """child spec whose outcome is dictated by decision variable `kind`"""
    def f(t):
        log.append((tag, t))
        if kind == 0:
            return val
        if kind == 1:
            raise MatchError('oracle {0}', tag)
        if kind == 2:
            raise PathAccessError(KeyError('k'), Path('k'), 0)
        raise UserErr(tag)
    f.__name__ = 'oracle%s' % (tag,)
    return f


def ref_child(kind, val, tag, t, log):
    log.append((tag, t))
    if kind == 0:
        return val
    if kind == 1:
        raise MatchError('oracle {0}', tag)
    if kind == 2:
        raise PathAccessError(KeyError('k'), Path('k'), 0)
    raise UserErr(tag)


def _cmp(got, exp, glog, rlog, **ctx):
    if got.kind != exp.kind:
        return fail(why='outcome kind', got=got, exp=exp, **ctx)
    if glog != rlog:
        return fail(why='call log (short-circuit / order / once)', glog=glog, rlog=rlog, **ctx)
    if got.kind == 'err':
        reach('step_err')
        return type(got.exc) is type(exp.exc) or fail(why='error class', got=got, exp=exp, **ctx)
    reach('step_ok')
    return got.value == exp.value or fail(why='value', got=got, exp=exp, **ctx)


D = 'DEFAULT'


def bool_step(node: int, n: int, k0: int, k1: int, k2: int, has_default: bool, x: int, v0: int, v1: int, v2: int) -> bool:
    """node: 0 And, 1 Or, 2 Not (uses child 0 only)"""
    start()
    glog, rlog = [], []
    kinds, vals = [k0, k1, k2][:n], [v0, v1, v2][:n]
    kids = [oracle(k, v, i, glog) for i, (k, v) in enumerate(zip(kinds, vals))]
    kw = {'default': Val(D)} if has_default else {}
    if node == 0:
        spec = And(*kids, **kw)
    elif node == 1:
        spec = Or(*kids, **kw)
    else:
        spec = Not(kids[0])

    def ref():
        if node == 0:
            try:
                res = x
                for i in range(n):
                    res = ref_child(kinds[i], vals[i], i, x, rlog)
                return res
            except GlomError:
                if has_default:
                    return D
                raise
        if node == 1:
            try:
                for i in range(n - 1):
                    try:
                        return ref_child(kinds[i], vals[i], i, x, rlog)
                    except GlomError:
                        pass
                return ref_child(kinds[n - 1], vals[n - 1], n - 1, x, rlog)
            except GlomError:
                if has_default:
                    return D
                raise
        try:
            ref_child(kinds[0], vals[0], 0, x, rlog)
        except GlomError:
            return x
        raise MatchError('child passed')
    got = run(lambda: glom(x, spec, glom_debug=True))
    exp = run(ref)
    return _cmp(got, exp, glog, rlog, node=node, kinds=kinds)


def switch_step(n: int, k0: int, k1: int, k2: int, w0: int, w1: int, w2: int, has_default: bool, as_dict: bool, x: int,
                v0: int, v1: int, v2: int) -> bool:
    """Switch with n cases: key outcome kinds k_i, value-spec outcome kinds w_i"""
    start()
    glog, rlog = [], []
    ks, ws, vs = [k0, k1, k2][:n], [w0, w1, w2][:n], [v0, v1, v2][:n]
    cases = [(oracle(k, 0, ('k', i), glog), oracle(w, v, ('v', i), glog)) for i, (k, w, v) in enumerate(zip(ks, ws, vs))]
    kw = {'default': Val(D)} if has_default else {}
    spec = Switch(dict(cases) if as_dict else cases, **kw)

    def ref():
        for i in range(n):
            try:
                ref_child(ks[i], 0, ('k', i), x, rlog)
            except GlomError:
                continue
            return ref_child(ws[i], vs[i], ('v', i), x, rlog)
        if has_default:
            return D
        raise MatchError('no matches')
    got = run(lambda: glom(x, spec, glom_debug=True))
    exp = run(ref)
    return _cmp(got, exp, glog, rlog, ks=ks, ws=ws)


# ---- Switch over REAL key specs in Match mode: the first case whose key passes, in the order given ---------------
from collections import OrderedDict as _OD

SW_KEYS = [int, bool, object, dict, _OD, str, 1, 'a', float, (int, str)]
SW_TARGETS = [True, 1, 0, 'a', 'b', 1.0]


def _key_passes(key, t):
    if isinstance(key, type):
        return isinstance(t, key)
    if isinstance(key, tuple):                      # a tuple pattern: only an equal-length tuple target conforms
        return False
    return t == key


def switch_real_keys(i: int, j: int, k: int, tk: int, has_default: bool) -> bool:
    start()
    i, j, k = concretize(i, 0, len(SW_KEYS) - 1), concretize(j, 0, len(SW_KEYS) - 1), concretize(k, 0, len(SW_KEYS) - 1)
    tk = concretize(tk, 0, len(SW_TARGETS) + 1)
    if OUT in (i, j, k, tk):
        return True
    t = SW_TARGETS[tk] if tk < len(SW_TARGETS) else ({} if tk == len(SW_TARGETS) else _OD())
    keys = [SW_KEYS[i], SW_KEYS[j], SW_KEYS[k]]
    cases = [(key, Val(('case', n))) for n, key in enumerate(keys)]
    kw = {'default': Val(D)} if has_default else {}
    spec = Match(Switch(cases, **kw))
    exp = None
    for n, key in enumerate(keys):
        if _key_passes(key, t):
            exp = ('case', n)
            break
    got = run(lambda: glom(t, spec, glom_debug=True))
    reach('switch_real')
    if exp is None:
        if has_default:
            return (got.kind == 'ok' and got.value == D) or fail(why='no case passes: default', got=got, keys=keys, t=t)
        return (got.kind == 'err' and isinstance(got.exc, MatchError)) or fail(why='no case passes: MatchError', got=got, keys=keys, t=t)
    if exp[1] > 0:
        reach('switch_later_case')
    return (got.kind == 'ok' and got.value == exp) or fail(why='not the FIRST case whose key passes', got=got, exp=exp, keys=keys, t=t)


OPS = [operator.eq, operator.ne, operator.gt, operator.lt, operator.ge, operator.le]


def m_atom(op: int, form: int, x: int, c: int) -> bool:
    """the six comparison operators in every spelling; passes iff the Python comparison is true"""
    start()
    f = OPS[op]
    if form == 0:
        spec, truth = f(M, c), f(x, c)                  # M op c
    elif form == 1:
        spec, truth = f(c, M), f(c, x)                  # c op M (reflected)
    elif form == 2:
        spec, truth = f(M(T * 2), c), f(x * 2, c)       # M(T-expr) op c
    elif form == 3:
        spec, truth = f(M(T['k']), c), f(x, c)          # M(T[...]) on a dict target
    elif form == 4:
        spec, truth = f(M(T + 1), M(T * 2 - c)), f(x + 1, x * 2 - c)   # subspec on both sides
    else:
        spec, truth = f(M, M(T - c)), f(x, x - c)
    t = {'k': x} if form == 3 else x
    got = run(lambda: glom(t, spec, glom_debug=True))
    if truth:
        reach('m_true')
        return (got.kind == 'ok' and got.value is t) or fail(why='should pass and return the target', got=got, x=x, c=c)
    reach('m_false')
    return (got.kind == 'err' and type(got.exc) is MatchError) or fail(why='should reject with MatchError', got=got, x=x, c=c)


def m_bare(which: int, x: int) -> bool:
    start()
    if which == 0:
        got, truth = run(lambda: glom(x, M, glom_debug=True)), bool(x)
    elif which == 1:
        got, truth = run(lambda: glom(x, M(T - 3), glom_debug=True)), bool(x - 3)
    elif which == 2:
        got, truth = run(lambda: glom(x, ~M, glom_debug=True)), not bool(x)
    else:     # failing T access inside M(...) is an access error, not a verdict
        got = run(lambda: glom(x, M(T['k']) > 0, glom_debug=True))
        reach('m_bare')
        return (got.kind == 'err' and isinstance(got.exc, PathAccessError)) or fail(got=got)
    reach('m_bare')
    if truth:
        return (got.kind == 'ok' and got.value == x) or fail(got=got, x=x)
    return (got.kind == 'err' and isinstance(got.exc, MatchError)) or fail(got=got, x=x)


# ---- trees --------------------------------------------------------------------------------------------
NATOM = 7


def atom(kind, c, tag, log):
    """(spec, reference verdict fn(x) -> (ok, value))"""
    if kind == 0:
        return M > c, (lambda x: (x > c, x))
    if kind == 1:
        return M <= c, (lambda x: (x <= c, x))
    if kind == 2:
        return M(T * 2) == c, (lambda x: (x * 2 == c, x))
    if kind == 3:
        return M, (lambda x: (bool(x), x))
    if kind == 4:
        def p(t):
            log.append(tag)
            if not t > c:
                raise MatchError('pred {0}', tag)
            return ('val', tag)

        def r(x):
            log.append(('r', tag))
            return (x > c, ('val', tag))
        return p, r
    if kind == 6:
        # passes like M > c but yields a value other than the target
        return And(M > c, Val(('val', tag))), (lambda x: (x > c, ('val', tag)))
    return Match(int) if c % 2 else Match(str), (lambda x: (bool(c % 2), x))


def mk(node, a, b, ops):
    if node == 0:
        return (a & b) if ops else And(a, b)
    if node == 1:
        return (a | b) if ops else Or(a, b)
    return (~a) if ops else Not(a)


def ref_node(node, ra, rb, x):
    if node == 0:
        ok, v = ra(x)
        if not ok:
            return (False, None)
        return rb(x)
    if node == 1:
        ok, v = ra(x)
        if ok:
            return (True, v)
        return rb(x)
    ok, _ = ra(x)
    return (not ok, x)


def bool_tree(root: int, left: int, a0: int, a1: int, a2: int, ops: bool, x: int, c0: int, c1: int, c2: int) -> bool:
    """root(left(atom0, atom1), atom2); root/left in {And, Or, Not}; Not ignores its second operand"""
    start()
    log = []
    (s0, r0), (s1, r1), (s2, r2) = atom(a0, c0, 0, log), atom(a1, c1, 1, log), atom(a2, c2, 2, log)
    if ops and ((callable(s0) and not hasattr(s0, 'glomit')) or (callable(s2) and root != 2 and False)):
        return True     # a bare function has no & | ~ operators
    try:
        lspec = mk(left, s0, s1, ops)
        spec = mk(root, lspec, s2, ops)
    except TypeError:
        return True
    lref = lambda t: ref_node(left, r0, r1, t)
    got = run(lambda: glom(x, spec, glom_debug=True))
    glog = [e for e in log if not isinstance(e, tuple)]
    del log[:]
    ok, val = ref_node(root, lref, r2, x)
    rlog = [e[1] for e in log if isinstance(e, tuple)]
    if glog != rlog:
        return fail(why='predicate call log', glog=glog, rlog=rlog)
    if ok:
        reach('tree_pass')
        return (got.kind == 'ok' and got.value == val) or fail(why='should pass', got=got, val=val, x=x)
    reach('tree_reject')
    if got.kind == 'err' and type(got.exc) is MatchError:
        return True
    if got.kind == 'err' and isinstance(got.exc, MatchError):
        return True
    return fail(why='rejection must be a MatchError', got=got, x=x, root=root, left=left)


# ---- Check ----------------------------------------------------------------------------------------------
class Boom(Exception):
    pass


def check_kw(use_type: bool, use_inst: bool, vals: int, validate: int, use_spec: bool, use_default: bool, tkind: int,
             x: int, c: int) -> bool:
    """vals: 0 none, 1 equal_to=c, 2 one_of=(c, c+2);  validate: 0 none, 1 pred, 2 [pred, pred2], 3 returns False,
    4 raises, 5 returns None, 6 returns the (possibly falsy: 0, '') target, 7 list whose members return True, 0, '';  tkind: target is 0 int x, 1 bool, 2 str, 3 subclass-of-int instance"""
    start()
    if vals != 0 or validate in (1, 2):
        # the failure message formats target and operand (f-strings): values are realised -> (D)
        x, c = concretize(x, -1, 3), concretize(c, 0, 1)
        if x is OUT or c is OUT:
            return True

    class MyInt(int):
        pass
    target = [x, x > 0, 'str', MyInt(3), ''][tkind]
    kw = {}
    conds = []
    if use_type:
        kw['type'] = int
        conds.append(lambda v: type(v) is int)
    if use_inst:
        kw['instance_of'] = int
        conds.append(lambda v: isinstance(v, int))
    if vals == 1:
        kw['equal_to'] = c
        conds.append(lambda v: v == c)
    elif vals == 2:
        kw['one_of'] = (c, c + 2)
        conds.append(lambda v: v == c or v == c + 2)
    calls = []

    def pred(v):
        calls.append('p')
        return v != c + 1

    def pred2(v):
        calls.append('q')
        return True

    def falsy(v):
        return False

    def raiser(v):
        raise Boom('validator')
    if validate == 1:
        kw['validate'] = pred
        conds.append(lambda v: v != c + 1)
    elif validate == 2:
        kw['validate'] = [pred, pred2]
        conds.append(lambda v: v != c + 1)
    elif validate == 3:
        kw['validate'] = falsy
        conds.append(lambda v: False)
    elif validate == 4:
        kw['validate'] = raiser
        conds.append(lambda v: False)
    elif validate == 5:        # "If one or more return False or raise an exception, the Check will fail": None is not False
        kw['validate'] = lambda v: None
    elif validate == 6:        # a converter used as validator: returns 0 / '' / False-like values for some targets
        kw['validate'] = lambda v: v if type(v) is not bool else int(v)
    elif validate == 7:
        kw['validate'] = [pred2, (lambda v: 0), (lambda v: '')]
    if not kw:
        conds.append(lambda v: bool(v))        # no condition at all: truthiness
    if use_default:
        kw['default'] = D
    if use_spec:
        t = {'v': target}
        spec = Check(T['v'], **kw)
    else:
        t = target
        spec = Check(**kw)
    checked = target
    try:
        passes = all(cnd(checked) for cnd in conds)
    except TypeError:
        return True
    got = run(lambda: glom(t, spec, glom_debug=True))
    if passes:
        reach('check_pass')
        return (got.kind == 'ok' and got.value is t) or fail(why='should pass through the target', got=got, kw=kw)
    reach('check_fail')
    if use_default:
        if got.kind == 'ok' and got.value == D:
            return True
        if validate == 4 and known_open('known_C10_check_raiser_default') and got.kind == 'err' and type(got.exc) is CheckError:
            return True
        return fail(why='should return the default', got=got, kw=kw)
    return (got.kind == 'err' and type(got.exc) is CheckError) or fail(why='should raise CheckError', got=got, kw=kw)


def obligations(tier):
    q = tier == 'quick'
    obs = []
    for node in (0, 1):
        for n in (1, 2, 3):
            fx = {'node': node, 'n': n}
            for k in ['k0', 'k1', 'k2'][n:]:
                fx[k] = 0
            pre = ' and '.join('0 <= %s <= 3' % k for k in ['k0', 'k1', 'k2'][:n])
            obs.append(Ob(bool_step, fixed=fx, pre=pre, name='bool_step_%s_n%d' % (['and', 'or'][node], n)))
    obs.append(Ob(bool_step, fixed={'node': 2, 'n': 1, 'k1': 0, 'k2': 0, 'has_default': False}, pre='0 <= k0 <= 3',
                  name='bool_step_not'))
    for n in (1, 2, 3):
        fx = {'n': n}
        for k in ['k0', 'k1', 'k2'][n:] + ['w0', 'w1', 'w2'][n:]:
            fx[k] = 0
        pre = ' and '.join('0 <= %s <= 3' % k for k in ['k0', 'k1', 'k2'][:n] + ['w0', 'w1', 'w2'][:n])
        if n == 3:
            for k0 in range(4):
                f2 = dict(fx)
                f2['k0'] = k0
                pre3 = ' and '.join('0 <= %s <= 3' % k for k in ['k1', 'k2', 'w0', 'w1', 'w2'])
                obs.append(Ob(switch_step, fixed=f2, pre=pre3, name='switch_step_n3_k%d' % k0))
        else:
            obs.append(Ob(switch_step, fixed=fx, pre=pre, name='switch_step_n%d' % n))
    for i in range(len(SW_KEYS)):
        obs.append(Ob(switch_real_keys, fixed={'i': i}, pre='0 <= j < %d and 0 <= k < %d and 0 <= tk <= %d' % (len(SW_KEYS), len(SW_KEYS), len(SW_TARGETS) + 1),
                      name='switch_real_keys_%d' % i, timeout=240))
    obs.append(Ob(switch_real_keys, fixed={'i': 0}, pre='0 <= j < %d and 0 <= k < %d and 0 <= tk <= %d' % (len(SW_KEYS), len(SW_KEYS), len(SW_TARGETS) + 1),
                  twin='switch_later_case', name='switch_real_keys_0'))
    for op in range(6):
        obs.append(Ob(m_atom, fixed={'op': op}, pre='0 <= form <= 5', name='m_atom_op%d' % op))
    obs.append(Ob(m_bare, pre='0 <= which <= 3', name='m_bare'))
    for root in range(3):
        for left in range(3):
            for ops in (False, True):
                na = NATOM
                pre = '0 <= a0 < %d and 0 <= a1 < %d and 0 <= a2 < %d' % (na, na, na)
                fx = {'root': root, 'left': left, 'ops': ops}
                if root == 2:
                    fx['a2'] = 0
                    pre = '0 <= a0 < %d and 0 <= a1 < %d' % (na, na)
                if left == 2:
                    fx['a1'] = 0
                    pre = pre.replace('0 <= a1 < %d and ' % na, '').replace(' and 0 <= a1 < %d' % na, '')
                obs.append(Ob(bool_tree, fixed=fx, pre=pre, name='bool_tree_r%d_l%d_ops%d' % (root, left, ops), timeout=300))
    for vals in range(3):
        for validate in range(8):
            pre = '0 <= tkind <= 4'
            if vals != 0 or validate in (1, 2):
                pre += ' and -1 <= x <= 3 and 0 <= c <= 1'
            obs.append(Ob(check_kw, fixed={'vals': vals, 'validate': validate}, pre=pre,
                          name='check_kw_v%d_val%d' % (vals, validate), timeout=240))
    obs.append(Ob(bool_step, fixed={'node': 1, 'n': 2, 'k2': 0}, pre='0 <= k0 <= 3 and 0 <= k1 <= 3', twin='step_err', name='bool_step_or_n2'))
    obs.append(Ob(bool_step, fixed={'node': 1, 'n': 2, 'k2': 0}, pre='0 <= k0 <= 3 and 0 <= k1 <= 3', twin='step_ok', name='bool_step_or_n2'))
    obs.append(Ob(m_atom, fixed={'op': 2}, pre='0 <= form <= 5', twin='m_false', name='m_atom_op2'))
    obs.append(Ob(bool_tree, fixed={'root': 0, 'left': 1, 'ops': True}, pre='0 <= a0 < 7 and 0 <= a1 < 7 and 0 <= a2 < 7', twin='tree_reject', name='bool_tree_r0_l1'))
    obs.append(Ob(bool_tree, fixed={'root': 0, 'left': 1, 'ops': True}, pre='0 <= a0 < 7 and 0 <= a1 < 7 and 0 <= a2 < 7', twin='tree_pass', name='bool_tree_r0_l1'))
    obs.append(Ob(check_kw, fixed={'vals': 1, 'validate': 1}, pre='0 <= tkind <= 3 and -1 <= x <= 3 and 0 <= c <= 1', twin='check_fail', name='check_kw_v1_val1'))
    obs.append(Ob(check_kw, fixed={'vals': 1, 'validate': 1}, pre='0 <= tkind <= 3 and -1 <= x <= 3 and 0 <= c <= 1', twin='check_pass', name='check_kw_v1_val1'))
    return obs
