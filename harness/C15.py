"""C15 -- Fold, Sum, Flatten, Merge equal plain-Python reductions and mutate no input."""
import functools
import itertools
import operator
from collections import OrderedDict
from typing import List

from glom import glom, T, Fold, Sum, Flatten, Merge, flatten, merge, GlomError
from glom.reduction import FoldError, Count

from vkit.common import start, reach, fail, known_open, concretize
from vkit.ob import Ob
import vkit.stubs  # noqa: F401

META = {
    'explanation': 'Fold/Sum/Flatten/Merge/flatten()/merge() are run by the real glom on symbolic lists (unbounded ints, '
                   'symbolic lengths) and compared with functools.reduce / sum / chain.from_iterable / dict.update; '
                   'init-call counts, input snapshots and aliasing between repeated evaluations are asserted.',
    'bounds': {
        'quick': {'list length': '<= 4 (outer <= 3, inner <= 2 for nested)', 'numbers': 'unbounded symbolic ints',
                  'dict keys': "{'a','b','c'} with symbolic presence bits", 'levels': '0..3',
                  'custom ops': '7 ops whose results include None, 0 and () (plain, with a list sub-spec, as a Group aggregator)',
                  'failed evaluations': '8 spec kinds, an indigestible element at position p < n <= 4, then two more evaluations of the same spec object'},
        'thorough': {'list length': '<= 5 (outer <= 4, inner <= 3)', 'levels': '0..3'},
    },
    'stubs': ['S3 glom_debug=True', 'S4 state reset'],
    'outside_claim': ['float accumulation with non-integer data', 'user ops with side effects', 'strings as elements '
                      'beyond the fixed pool'],
    'assumptions': [],
}


class Counter:
    def __init__(self, make):
        self.n, self.make = 0, make

    def __call__(self):
        self.n += 1
        return self.make()


class Acc:
    """custom accumulator type"""
    def __init__(self):
        self.items = []

    def __iadd__(self, v):
        self.items.append(v)
        return self


def sum_eq(which: int, xs: List[int], a: int) -> bool:
    start()
    snap = list(xs)
    if which == 0:
        spec, exp, init = Sum(), sum(xs), None
    elif which == 1:
        init = Counter(lambda: a)
        spec, exp = Sum(init=init), sum(xs, a)
    elif which == 2:
        init = Counter(int)
        spec, exp = Fold(T, init=init, op=operator.add), functools.reduce(operator.add, xs, 0)
    elif which == 3:
        init = Counter(lambda: a)
        op = lambda acc, v: acc * 2 - v
        spec, exp = Fold(T, init=init, op=op), functools.reduce(op, xs, a)
    elif which == 4:           # subspec evaluated first, then iterated
        init = Counter(int)
        spec, exp = Fold([T + a], init=init), sum(x + a for x in xs)
    elif which == 5:
        init = Counter(list)
        spec, exp = Fold([lambda x: [x]], init=init), functools.reduce(operator.iadd, [[x] for x in xs], [])
    elif which == 6:
        init = Counter(tuple)
        spec, exp = Fold([lambda x: (x, a)], init=init), functools.reduce(operator.add, [(x, a) for x in xs], ())
    elif which == 7:
        init = None
        spec, exp = Count(), len(xs)
    elif which == 8:
        xs = [concretize(x, -2, 2) for x in xs]      # floats: finite domain (D)
        snap = list(xs)
        init = Counter(float)
        spec, exp = Sum(init=init), None
    else:
        init = Counter(Acc)
        spec, exp = Fold(T, init=init), None
    got1 = glom(xs, spec, glom_debug=True)
    got2 = glom(xs, spec, glom_debug=True)          # the same spec object again
    reach('sum')
    if xs != snap:
        return fail(why='input mutated', xs=xs, snap=snap)
    if init is not None and init.n != 2:
        return fail(why='init must be called once per evaluation', n=init.n)
    if which == 8:
        exp = 0.0
        for x in xs:
            exp += x
        return (got1 == exp and got2 == exp and isinstance(got1, float)) or fail(got=got1, exp=exp)
    if which == 9:
        ok = got1 is not got2 and got1.items == snap and got2.items == snap and got1.items is not got2.items
        return ok or fail(why='custom accumulator', a=got1.items, b=got2.items)
    if got1 != exp or got2 != exp:
        return fail(why='value', got1=got1, got2=got2, exp=exp)
    if isinstance(exp, list) and (got1 is got2):
        return fail(why='results of separate evaluations share state')
    return True


def flatten_eq(which: int, xss: List[List[int]], a: int) -> bool:
    start()
    snap = [list(x) for x in xss]
    ids = [id(x) for x in xss]
    ref = list(itertools.chain.from_iterable(xss))
    if which == 0:
        spec = Flatten()
    elif which == 1:
        spec = Flatten(init='lazy')
    elif which == 2:
        xss = [tuple(x) for x in xss]
        snap = [list(x) for x in xss]
        ids = [id(x) for x in xss]
        spec = Flatten(init=tuple)
    elif which == 3:
        spec = Flatten([T + [a]])          # subspec builds new lists
        ref = list(itertools.chain.from_iterable(x + [a] for x in xss))
    elif which == 8:
        spec = Sum(init=list)              # "summing" lists: the first input element must not become the accumulator
    elif which == 4:
        got = flatten(xss)
        spec = None
    elif which == 5:
        got = flatten(xss, init='lazy')
        spec = None
    elif which == 6:
        xss = [tuple(x) for x in xss]
        snap = [list(x) for x in xss]
        ids = [id(x) for x in xss]
        got = flatten(xss, init=tuple)
        spec = None
    else:
        got = flatten({'k': xss}, spec='k')
        spec = None
    if spec is not None:
        got = glom(xss, spec, glom_debug=True)
        got_b = glom(xss, spec, glom_debug=True)
    else:
        got_b = None
    if which in (1, 5):
        if isinstance(got, list):
            return fail(why='lazy flatten must not build a list')
        got = list(got)
        if got_b is not None:
            got_b = list(got_b)
    if which in (2, 6):
        if type(got) is not tuple:
            return fail(why='init=tuple', got=got)
        got = list(got)
        if got_b is not None:
            got_b = list(got_b)
    reach('flatten')
    if [list(x) for x in xss] != snap or [id(x) for x in xss] != ids:
        return fail(why='input mutated', xss=xss, snap=snap)
    if got != ref or (got_b is not None and got_b != ref):
        return fail(why='value', got=got, got_b=got_b, ref=ref)
    # no aliasing with an input element: mutating the result must not change the input
    if isinstance(got, list):
        got.append(a)
        if [list(x) for x in xss] != snap:
            return fail(why='result aliases an input element')
        if got_b is not None and got_b != ref:
            return fail(why='results of separate evaluations share state')
    return True


# ---- Fold(subspec, init, op) == functools.reduce(op, items, init()) for EVERY op, None / falsy results included ------
def _fold_op(opk, k):
    return [
        (lambda acc, v: None if v == k else v),                    # "last value, unless it is k"
        (lambda acc, v: None if v == k else (acc or 0) + v),       # running sum that resets to None
        (lambda acc, v: acc),                                      # ignores the items
        (lambda acc, v: v),                                        # last item
        (lambda acc, v: 0 if v == k else (acc or 0) + v),          # falsy but not None
        (lambda acc, v: (acc or ()) + (v,) if v != k else ()),     # empty container as a legitimate result
        (lambda acc, v: acc if acc is not None and acc >= v else v),
    ][opk]


N_FOLD_OPS = 7


def fold_ops(opk: int, where: int, xs: List[int], a: int, k: int) -> bool:
    start()
    op = _fold_op(opk, k)
    init = Counter(lambda: (a if opk != 5 else (a,)))
    snap = list(xs)
    exp = functools.reduce(op, xs, init.make())
    if where == 0:
        spec = Fold(T, init=init, op=op)
        got = glom(xs, spec, glom_debug=True)
        again = glom(xs, spec, glom_debug=True)
    elif where == 1:
        spec = Fold([T], init=init, op=op)
        got = glom(xs, spec, glom_debug=True)
        again = glom(xs, spec, glom_debug=True)
    else:                                                              # the same reduction as a Group aggregator
        from glom.grouping import Group
        spec = Group(Fold(T, init=init, op=op))
        if not xs:
            return True                                                # no item: the aggregator is never started
        got = glom(xs, spec, glom_debug=True)
        again = glom(xs, spec, glom_debug=True)
    reach('fold_ops')
    if xs != snap:
        return fail(why='input mutated')
    return (got == exp and again == exp and type(got) is type(exp)) or fail(why='not functools.reduce(op, items, init())', got=got, again=again, exp=exp)


# ---- an evaluation that FAILS part-way leaves nothing behind for the next evaluation of the same spec object ---------
class _Bad:
    """an element no reduction can digest"""


def after_failure(kind: int, p: int, n: int, x: int) -> bool:
    start()
    kind, p, n = concretize(kind, 0, 7), concretize(p, 0, 3), concretize(n, 1, 4)
    from vkit.common import OUT as _OUT
    if _OUT in (kind, p, n) or p >= n:
        return True
    from glom.grouping import Group

    def boom_op(acc, v):
        if v is BAD:
            raise ValueError('op failed')
        return acc + [v]
    BAD = _Bad()
    if kind in (0, 1, 2):
        good = [{'k%d' % i: x + i} for i in range(n)]
        spec = [Merge(), Merge(init=OrderedDict), Merge(op='update')][kind]
    elif kind == 3:
        good = [[x + i] for i in range(n)]
        spec = Flatten()
    elif kind == 4:
        good = [x + i for i in range(n)]
        spec = Sum()
    elif kind == 5:
        good = [[x + i] for i in range(n)]
        spec = Sum(init=list)
    elif kind == 6:
        good = [x + i for i in range(n)]
        spec = Fold(T, init=list, op=boom_op)
    else:
        good = [[x + i] for i in range(n)]
        spec = Flatten(init=list)
    # the failing target holds OTHER data, so that anything it leaves behind shows in the next result
    if kind in (0, 1, 2):
        bad = [{'z%d' % i: x - i} for i in range(n)]
    elif kind in (4, 6):
        bad = [x + 100 + i for i in range(n)]
    else:
        bad = [[x + 100 + i] for i in range(n)]
    bad[p] = BAD
    fresh = glom(copy_of(good), _rebuild(kind, boom_op), glom_debug=True)
    first = run_(lambda: glom(bad, spec, glom_debug=True))
    if first[0] == 'ok':
        return fail(why='the indigestible element was accepted', got=first[1])
    reach('after_failure')
    got = glom(good, spec, glom_debug=True)
    if got != fresh or type(got) is not type(fresh):
        return fail(why='an evaluation that failed part-way left state behind in the spec object', got=got, fresh=fresh, kind=kind, p=p)
    got2 = glom(good, spec, glom_debug=True)
    return (got2 == fresh and got2 is not got) or fail(why='third evaluation', got2=got2, fresh=fresh)


def copy_of(v):
    import copy
    return copy.deepcopy(v)


def run_(thunk):
    try:
        return ('ok', thunk())
    except Exception as e:
        return ('err', e)


def _rebuild(kind, boom_op):
    """a FRESH spec object of the same kind (the reference)"""
    return [Merge(), Merge(init=OrderedDict), Merge(op='update'), Flatten(), Sum(), Sum(init=list),
            Fold(T, init=list, op=boom_op), Flatten(init=list)][kind]


def _nest(xs, depth):
    """[[x], [x, x+1]] style nesting of the given depth built from symbolic ints"""
    cur = list(xs)
    for _ in range(depth):
        cur = [cur[:1], cur[1:]] if len(cur) > 1 else [cur]
    return cur


def _flat_ref(v, levels):
    for _ in range(levels):
        v = list(itertools.chain.from_iterable(v))
    return v


def flatten_levels(levels: int, depth: int, xs: List[int], use_int: bool) -> bool:
    start()
    t = _nest(xs, depth)
    if levels > depth + (1 if use_int else 0):
        return True      # flattening below the leaves is the non-iterable case (see non_iterable)
    if use_int and levels == depth + 1:
        if depth == 0 and False:
            return True
        exp = sum(_flat_ref(t, depth))
        got = flatten(t, levels=levels, init=int)
        reach('levels_int')
        return got == exp or fail(got=got, exp=exp)
    if levels > depth:
        return True
    exp = _flat_ref(t, levels)
    got = flatten(t, levels=levels)
    reach('levels')
    if levels == 0:
        return got is t or fail(why='levels=0 returns the target itself')
    return got == exp or fail(got=got, exp=exp, t=t, levels=levels)


KEYS = ['a', 'b', 'c']


def merge_eq(which: int, n: int, p0: int, p1: int, p2: int, v0: int, v1: int, v2: int, w0: int, w1: int, w2: int) -> bool:
    """n dicts; dict i has key KEYS[j] iff bit j of p_i is set; values symbolic; last writer wins"""
    start()
    ds = []
    vals = [(v0, v1, v2), (w0, w1, w2), (v0 + w0, v1 - w1, v2)]
    for i, p in enumerate([p0, p1, p2][:n]):
        d = {}
        for j, k in enumerate(KEYS):
            bit = [1, 2, 4][j]
            present = (p == bit or p == bit + [2, 4, 1][j] or p == bit + [4, 1, 2][j] or p == 7)
            if present:
                d[k] = vals[i][j]
        ds.append(d)
    snap = [dict(d) for d in ds]
    exp = {}
    for d in ds:
        exp.update(d)
    if which == 0:
        got = glom(ds, Merge(), glom_debug=True)
    elif which == 1:
        got = merge(ds)
    elif which == 2:
        got = glom(ds, Merge(init=OrderedDict), glom_debug=True)
        if type(got) is not OrderedDict:
            return fail(why='init type', got=got)
    elif which == 3:
        got = merge({'x': ds}, spec='x')
    else:
        spec = Merge()
        first = glom(ds, spec, glom_debug=True)
        got = glom(ds, spec, glom_debug=True)
        if first is got:
            return fail(why='same object returned by two evaluations')
        first['zz'] = 1
        if 'zz' in got:
            return fail(why='results share state')
    reach('merge')
    if [dict(d) for d in ds] != snap:
        return fail(why='input mutated', ds=ds, snap=snap)
    if any(got is d for d in ds):
        return fail(why='result is an input element')
    return (dict(got) == exp and list(got) == list(exp)) or fail(got=got, exp=exp)


class Plain:
    pass


def non_iterable(which: int, tkind: int, via: int, x: int) -> bool:
    """a non-iterable value to fold over -- the target itself, or what the sub-spec produced from it -- raises FoldError,
    falsy values (None, 0, 0.0, False) included; only an (empty) ITERABLE gives init()"""
    start()
    tkind, via, which = concretize(tkind, 0, 7), concretize(via, 0, 2), concretize(which, 0, 5)
    from vkit.common import OUT as _OUT
    if _OUT in (tkind, via, which):
        return True
    t = [x, None, Plain(), 1.5, 0, 0.0, False, True][tkind]
    if via == 0:
        spec, tgt = [Sum(), Flatten(), Merge(), Fold(T, init=int), Flatten(init='lazy'), Count()][which], t
    elif via == 1:
        spec, tgt = [Sum('n'), Flatten('n'), Merge('n'), Fold('n', init=int), Flatten('n', init='lazy'), Count()][which], {'n': t}
        if which == 5:
            spec = ('n', Count())
    else:
        spec, tgt = [Sum(T['n']), Flatten(T['n']), Merge(T['n']), Fold((T['n'],), init=list), Flatten(T['n'], init='lazy'), Count()][which], {'n': t}
        if which == 5:
            return True
    try:
        got = glom(tgt, spec, glom_debug=True)
        if which == 4:
            got = list(got)
    except FoldError:
        reach('folderror')
        return True
    except Exception as e:
        return fail(why='wrong error class', e=e)
    return fail(why='expected FoldError', got=got, t=t, via=via, which=which)


def flatten_mixed(k0: int, k1: int, k2: int, n: int, init: int, x: int) -> bool:
    """Flatten with elements of MIXED iterable types: the eager result is exactly functools.reduce(operator.iadd, items, init())
    -- tuple += list is a TypeError, list += tuple extends -- and the lazy one is chain.from_iterable"""
    start()
    k0, k1, k2, n, init = concretize(k0, 0, 4), concretize(k1, 0, 4), concretize(k2, 0, 4), concretize(n, 1, 3), concretize(init, 0, 2)
    x = concretize(x, 0, 1)              # the element VALUES are immaterial here (hashed as dict keys): finite domain
    from vkit.common import OUT as _OUT
    if _OUT in (k0, k1, k2, n, init, x):
        return True

    def elem(k, i):
        return [(x + i,), [x + i], 'ab', {x + i: 1}, ()][k]
    items = [elem(k, i) for i, k in enumerate([k0, k1, k2][:n])]
    mk = [list, tuple, 'lazy'][init]
    if init == 2:
        exp = run_(lambda: list(itertools.chain.from_iterable(items)))
        got = run_(lambda: list(glom(list(items), Flatten(init='lazy'), glom_debug=True)))
    else:
        exp = run_(lambda: functools.reduce(operator.iadd, [copy_of(i) for i in items], mk()))
        got = run_(lambda: glom(list(items), Flatten(init=mk), glom_debug=True))
    reach('flatten_mixed')
    if exp[0] == 'err':
        reach('flatten_mixed_err')
        return (got[0] == 'err' and type(got[1]) is type(exp[1])) or fail(why='reduce(iadd) fails here, so must Flatten', got=got, exp=exp, items=items)
    return (got[0] == 'ok' and got[1] == exp[1] and type(got[1]) is type(exp[1])) or fail(why='value', got=got, exp=exp, items=items)


def strings(which: int, i0: int, i1: int, i2: int, n: int) -> bool:
    """strings / tuples as elements (finite pool)"""
    start()
    pool = ['', 'a', 'bc', 'a.b']
    items = []
    for i in [i0, i1, i2][:n]:
        for k in range(len(pool)):
            if i == k:
                items.append(pool[k])
    if which == 0:
        got, exp = glom(items, Fold(T, init=str), glom_debug=True), ''.join(items)
    elif which == 1:
        got, exp = glom(items, Flatten(), glom_debug=True), list(itertools.chain.from_iterable(items))
    else:
        got, exp = glom([tuple(s) for s in items], Flatten(init=tuple), glom_debug=True), tuple(itertools.chain.from_iterable(items))
    reach('strings')
    return got == exp or fail(got=got, exp=exp)


def generators(which: int, xs: List[int]) -> bool:
    start()
    gen = (x for x in xs)
    if which == 0:
        got, exp = glom(gen, Sum(), glom_debug=True), sum(xs)
    elif which == 1:
        got, exp = glom(([x] for x in xs), Flatten(), glom_debug=True), list(xs)
    else:
        got, exp = glom(iter([{'k': x} for x in xs]), Merge(), glom_debug=True), ({'k': xs[-1]} if len(xs) else {})
    reach('gen')
    return got == exp or fail(got=got, exp=exp)


def obligations(tier):
    q = tier == 'quick'
    L = 4 if q else 5
    obs = []
    for w in range(10):
        pre = 'len(xs) <= %d' % L if w != 8 else 'len(xs) <= 3 and all(-2 <= x <= 2 for x in xs)'
        obs.append(Ob(sum_eq, fixed={'which': w}, pre=pre, name='sum_eq_%d' % w))
    for w in range(9):
        pre = 'len(xss) <= %d and all(len(x) <= %d for x in xss)' % ((3, 2) if q else (4, 3))
        if w == 3:
            pre = 'len(xss) <= 2 and all(len(x) <= 2 for x in xss)'
        obs.append(Ob(flatten_eq, fixed={'which': w}, pre=pre, name='flatten_eq_%d' % w, timeout=None if q else 1800))
    for opk in range(N_FOLD_OPS):
        obs.append(Ob(fold_ops, fixed={'opk': opk}, pre='0 <= where <= 2 and len(xs) <= %d' % L, name='fold_ops_%d' % opk,
                      timeout=None if q else 900))
    obs.append(Ob(after_failure, pre='0 <= kind <= 7 and 0 <= p <= 3 and 1 <= n <= 4', name='after_failure', timeout=200))
    obs.append(Ob(after_failure, pre='0 <= kind <= 7 and 0 <= p <= 3 and 1 <= n <= 4', twin='after_failure', name='after_failure'))
    obs.append(Ob(fold_ops, fixed={'opk': 1}, pre='0 <= where <= 2 and len(xs) <= %d' % L, twin='fold_ops', name='fold_ops_1'))
    for levels in range(4):
        for depth in range(3):
            for use_int in (False, True):
                if levels > depth + (1 if use_int else 0):
                    continue
                obs.append(Ob(flatten_levels, fixed={'levels': levels, 'depth': depth, 'use_int': use_int},
                              pre='len(xs) <= %d' % (3 if q else 4), name='flatten_levels_l%d_d%d_i%d' % (levels, depth, use_int)))
    for w in range(5):
        for n in range(0, 4):
            fx = {'which': w, 'n': n}
            ps = ['p0', 'p1', 'p2']
            for pn in ps[n:]:
                fx[pn] = 0
            pre = ' and '.join('0 <= %s <= 7' % pn for pn in ps[:n]) or 'True'
            if q and n == 3 and w in (1, 3):
                continue
            obs.append(Ob(merge_eq, fixed=fx, pre=pre, name='merge_eq_%d_n%d' % (w, n)))
    for w in range(6):
        obs.append(Ob(non_iterable, fixed={'which': w}, pre='0 <= tkind <= 7 and 0 <= via <= 2', name='non_iterable_%d' % w))
    for w in range(3):
        obs.append(Ob(strings, fixed={'which': w}, pre='0 <= n <= 3 and 0 <= i0 <= 3 and 0 <= i1 <= 3 and 0 <= i2 <= 3',
                      name='strings_%d' % w))
        obs.append(Ob(generators, fixed={'which': w}, pre='len(xs) <= %d' % L, name='generators_%d' % w))
    obs.append(Ob(sum_eq, fixed={'which': 3}, pre='len(xs) <= %d' % L, twin='sum', name='sum_eq_3'))
    obs.append(Ob(flatten_eq, fixed={'which': 0}, pre='len(xss) <= 3 and all(len(x) <= 2 for x in xss)', twin='flatten',
                  name='flatten_eq_0'))
    obs.append(Ob(flatten_levels, fixed={'levels': 2, 'depth': 2, 'use_int': False}, pre='len(xs) <= 3', twin='levels',
                  name='flatten_levels_2_2'))
    obs.append(Ob(merge_eq, fixed={'which': 0, 'n': 2, 'p2': 0}, pre='0 <= p0 <= 7 and 0 <= p1 <= 7', twin='merge',
                  name='merge_eq_0_n2'))
    obs.append(Ob(non_iterable, fixed={'which': 0}, pre='0 <= tkind <= 7 and 0 <= via <= 2', twin='folderror', name='non_iterable_0'))
    for init in range(3):
        obs.append(Ob(flatten_mixed, fixed={'init': init}, pre='0 <= k0 <= 4 and 0 <= k1 <= 4 and 0 <= k2 <= 4 and 1 <= n <= 3 and 0 <= x <= 1', name='flatten_mixed_%d' % init, timeout=150))
    obs.append(Ob(flatten_mixed, fixed={'init': 1}, pre='0 <= k0 <= 4 and 0 <= k1 <= 4 and 0 <= k2 <= 4 and 1 <= n <= 3 and 0 <= x <= 1', twin='flatten_mixed_err', name='flatten_mixed_1'))
    return obs
