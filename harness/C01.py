"""C01 -- Path access returns the addressed object or pinpoints the failing segment."""
from collections import OrderedDict
from typing import List, Optional

from glom import glom, T, Path, PathAccessError, GlomError
import glom.core as gc

from vkit.common import start, reach, fail, known_open, concretize, OUT, run
from vkit.ob import Ob
import vkit.stubs  # noqa: F401

META = {
    'explanation': 'A target is built level by level from decision variables (container kind per level, key presence '
                   'bits, symbolic list lengths, symbolic leaves), a path is built from per-position segment choices '
                   '(valid / decoy / missing / non-numeric / symbolic integer) in three spellings, and the real '
                   'glom() result is compared with a left-to-right reference walk: identity of the result, or '
                   'part_idx / wrapped exception class / catchability of the PathAccessError, plus the access log of '
                   'spy containers (nothing after the failing segment is touched, nothing twice).',
    'bounds': {
        'quick': {'depth': '1 (all 8 kinds x 10 segment choices) and 3 (kinds dict/list/object/None, 4 segment choices)',
                  'list length': '0..3 symbolic', 'integer segments': 'unbounded symbolic (Path/T spelling)',
                  'string segments': "alphabet {'a','b','zz','0','1','-1','x',''}"},
        'thorough': {'depth': '1 (all lengths 0..3), 2 (all 8 x 9 kind pairs x 3 spellings, every segment choice at the second level, presence and sharing symbolic, container lengths 2), 3 and 4 (representative kinds, lengths and presence fixed)', 'symbolic list length': '0..4'},
    },
    'stubs': ['S2 traceback.format_exc constant (walk_wrapped only)', 'S3 glom_debug=True',
              'S4 state reset'],
    'outside_claim': ['string keys outside the alphabet', 'depth > 4', 'user-registered get handlers (C13)'],
    'assumptions': [],
}

SEG = ['a', 'b', 'zz', '0', '1', '-1', 'x', '']
NSEG = len(SEG) + 2          # + symbolic int, + int given as text
KINDS = ['dict', 'odict', 'list', 'tuple', 'obj', 'slotted', 'int', 'none', 'symlist']

_LOG = [None]


def _log(o, k):
    if _LOG[0] is not None:
        _LOG[0].append((id(o), k))


class SpyDict(dict):
    __slots__ = ()

    def __getitem__(self, k):
        _log(self, k)
        return dict.__getitem__(self, k)


class SpyODict(OrderedDict):
    __slots__ = ()

    def __getitem__(self, k):
        _log(self, k)
        return OrderedDict.__getitem__(self, k)


class SpyList(list):
    __slots__ = ()

    def __getitem__(self, k):
        _log(self, k)
        return list.__getitem__(self, k)


class SpyTuple(tuple):
    __slots__ = ()

    def __getitem__(self, k):
        _log(self, k)
        return tuple.__getitem__(self, k)


class Obj:
    def __init__(self, **kw):
        self.__dict__.update(kw)


class SpyObj:
    def __init__(self, **kw):
        self.__dict__.update(kw)

    def __getattribute__(self, name):
        if not name.startswith('__'):
            _log(self, name)
        return object.__getattribute__(self, name)


class Slotted:
    __slots__ = ('a', 'b')


def build_level(kind, nxt, decoy, present, length, spy):
    """one container; `nxt` lives at address 'a' (mappings/objects) or index 1 (sequences)"""
    if kind == 0 or kind == 1:
        d = (SpyDict() if spy else {}) if kind == 0 else (SpyODict() if spy else OrderedDict())
        d['b'] = decoy
        if present:
            d['a'] = nxt
        d['0'] = decoy
        return d
    if kind == 2 or kind == 3:
        items = []
        for i in range(3):
            if length > i:
                items.append(nxt if i == 1 else decoy)
        if kind == 2:
            return SpyList(items) if spy else items
        return SpyTuple(items) if spy else tuple(items)
    if kind == 4:
        o = SpyObj(b=decoy) if spy else Obj(b=decoy)
        if present:
            o.__dict__['a'] = nxt
        return o
    if kind == 5:
        o = Slotted()
        o.b = decoy
        if present:
            o.a = nxt
        return o
    if kind == 6:
        return 7
    if kind == 8:
        return nxt                 # the symbolic list itself (deepest level only)
    return None


def seg_for(kind, choice, idx, spelling):
    """segment value for a choice number; choice 0 = the address of the next level for this kind"""
    if choice == 0:
        if kind in (2, 3, 8):
            return '1' if spelling == 0 else 1
        return 'a'
    if choice == 1:
        return 'b'
    if choice == 8:
        if kind == 8:
            return idx                      # symbolic list: the index stays symbolic and unbounded (V)
        if kind in (0, 1):
            return concretize(idx, -1, 1)   # hashed into a real dict: finite domain (D)
        return concretize(idx, -3, 3)       # reaches C-level indexing / getattr of a real object: (D)
    if choice == 9:
        return '1'                 # integer given as text (coerced for sequences, a key for mappings)
    return SEG[choice] if choice < len(SEG) else 'zz'


def ref_step(cur, op, seg):
    if op == 'P':
        if isinstance(cur, dict):
            return cur[seg]
        if isinstance(cur, (list, tuple)):
            return cur[int(seg)]
        return getattr(cur, seg)
    if op == '[':
        return cur[seg]
    return getattr(cur, seg)


def ref_walk(t, steps):
    cur = t
    for k, (op, seg) in enumerate(steps):
        try:
            cur = ref_step(cur, op, seg)
        except Exception as e:
            return ('err', k, type(e))
    return ('ok', cur)


def make_spec(steps, spelling):
    if spelling == 0:
        return '.'.join(seg for _, seg in steps)
    if spelling == 1:
        return Path(*[seg for _, seg in steps])
    t = T
    parts = []
    for op, seg in steps:
        if op == 'P':
            parts.append(seg)
        elif op == '[':
            parts.append(T[seg])
        else:
            parts.append(getattr(T, seg))
    return Path(*parts)


def _check(t, steps, spelling, spy, debug=True):
    if steps is None:
        return True
    spec = make_spec(steps, spelling)
    if spelling == 0 and len(steps) >= 2 and isinstance(t, dict):
        # a key that reads like the whole dotted text is NOT what a dotted path addresses (segments apply left to right)
        dict.__setitem__(t, spec, 'DECOY: the key equal to the whole path text')
        reach('decoy_key')
    log_ref, log_got = [], []
    _LOG[0] = log_ref
    exp = ref_walk(t, steps)
    _LOG[0] = log_got
    try:
        if debug:
            got = ('ok', glom(t, spec, glom_debug=True))
        else:
            got = ('ok', glom(t, spec))
    except PathAccessError as e:
        got = ('err', e)
    finally:
        _LOG[0] = None
    if got[0] == 'ok':
        if exp[0] != 'ok':
            return fail(why='expected error', exp=exp, got=got[1], steps=steps)
        reach('walk_ok')
        g, x = got[1], exp[1]
        same = (g is x) if not isinstance(x, int) or isinstance(x, bool) else (g == x)
        if not same:
            return fail(why='not the addressed object', got=g, exp=x, steps=steps)
    else:
        e = got[1]
        if exp[0] != 'err':
            return fail(why='unexpected PathAccessError', e=e, steps=steps)
        reach('walk_err')
        if e.part_idx != exp[1]:
            return fail(why='part_idx', part_idx=e.part_idx, exp=exp, steps=steps)
        if type(e.exc) is not exp[2]:
            return fail(why='wrapped exception class', exc=e.exc, exp=exp, steps=steps)
        if not (isinstance(e, GlomError) and isinstance(e, KeyError) and isinstance(e, IndexError)
                and isinstance(e, AttributeError)):
            return fail(why='catchability', e=e)
        if exp[1] > 0:
            reach('walk_err_late')
    if spy and log_got != log_ref:
        return fail(why='access log', got=log_got, exp=log_ref, steps=steps)
    return True


def _steps(kinds, choices, idxs, spelling):
    steps = []
    for kind, ch, idx in zip(kinds, choices, idxs):
        seg = seg_for(kind, ch, idx, spelling)
        if seg is OUT:
            return None            # outside the (D) domain
        op = 'P'
        if spelling == 2:
            # mixture: T steps where they are the natural spelling for the level kind
            if kind in (4, 5) and isinstance(seg, str) and seg.isidentifier():
                op = '.'
            elif kind in (0, 1, 2, 3, 8):
                op = '['
        steps.append((op, seg))
    return steps


def step1(kind: int, ch: int, spelling: int, spy: bool, present: bool, length: int, idx: int, leaf: int,
          xs: List[int]) -> bool:
    """depth 1: every kind x every segment choice x spelling"""
    start()
    if spelling == 0 and ch == 8:
        return True            # a symbolic integer has no dotted-string spelling
    t = build_level(kind, xs if kind == 8 else leaf, leaf + 1, present, length, spy)
    return _check(t, _steps([kind], [ch], [idx], spelling), spelling, spy)


def walk2(k0: int, k1: int, c0: int, c1: int, spelling: int, spy: bool, share: bool, p0: bool, p1: bool, l0: int,
          l1: int, i0: int, i1: int, leaf: int, xs: List[int]) -> bool:
    start()
    if spelling == 0 and (c0 == 8 or c1 == 8):
        return True
    lvl1 = build_level(k1, xs if k1 == 8 else leaf, leaf + 1, p1, l1, spy)
    t = build_level(k0, lvl1, lvl1 if share else leaf - 1, p0, l0, spy)
    return _check(t, _steps([k0, k1], [c0, c1], [i0, i1], spelling), spelling, spy)


def walk3(k0: int, k1: int, k2: int, c0: int, c1: int, c2: int, spelling: int, spy: bool, p0: bool, p1: bool, p2: bool,
          l0: int, l1: int, l2: int, i0: int, i1: int, i2: int, leaf: int, xs: List[int]) -> bool:
    start()
    if spelling == 0 and (c0 == 8 or c1 == 8 or c2 == 8):
        return True
    lvl2 = build_level(k2, xs if k2 == 8 else leaf, leaf + 1, p2, l2, spy)
    lvl1 = build_level(k1, lvl2, leaf - 1, p1, l1, spy)
    t = build_level(k0, lvl1, leaf - 2, p0, l0, spy)
    return _check(t, _steps([k0, k1, k2], [c0, c1, c2], [i0, i1, i2], spelling), spelling, spy)


def walk4(k0: int, k1: int, k2: int, k3: int, c0: int, c1: int, c2: int, c3: int, spelling: int, p0: bool, p1: bool,
          p2: bool, p3: bool, i0: int, i1: int, i2: int, i3: int, leaf: int) -> bool:
    start()
    if spelling == 0 and (c0 == 8 or c1 == 8 or c2 == 8 or c3 == 8):
        return True
    lvl3 = build_level(k3, leaf, leaf + 1, p3, 2, True)
    lvl2 = build_level(k2, lvl3, leaf + 2, p2, 2, True)
    lvl1 = build_level(k1, lvl2, leaf - 1, p1, 2, True)
    t = build_level(k0, lvl1, leaf - 2, p0, 2, True)
    return _check(t, _steps([k0, k1, k2, k3], [c0, c1, c2, c3], [i0, i1, i2, i3], spelling), spelling, True)


def walk_wrapped(k0: int, k1: int, c0: int, c1: int, spelling: int, p0: bool, p1: bool, i0: int, i1: int,
                 leaf: int) -> bool:
    """the normal (non-debug) exit of glom(): the re-raised error is a copy with the same coordinates"""
    start()
    if spelling == 0 and (c0 == 8 or c1 == 8):
        return True
    lvl1 = build_level(k1, leaf, leaf + 1, p1, 2, False)
    t = build_level(k0, lvl1, leaf - 1, p0, 2, False)
    steps = _steps([k0, k1], [c0, c1], [i0, i1], spelling)
    if steps is None:
        return True
    if not _check(t, steps, spelling, False, debug=False):
        return False
    spec = make_spec(steps, spelling)
    try:
        glom(t, spec, glom_debug=True)
    except PathAccessError as orig:
        try:
            glom(t, spec)
        except PathAccessError as e:
            reach('wrapped')
            ok = (e is not orig and e.part_idx == orig.part_idx and type(e.exc) is type(orig.exc)
                  and e.path == orig.path and type(e) is PathAccessError)
            return ok or fail(why='re-raised copy differs', e=e, orig=orig)
        return fail(why='non-debug call did not raise')
    return True


def cache_indep(k0: int, c0: int, c1: int, warm: int, p0: bool, p1: bool, leaf: int) -> bool:
    """same dotted string used before on another target (or under the other PATH_STAR setting)"""
    start()
    lvl1 = build_level(0, leaf, leaf + 1, p1, 2, False)
    t = build_level(k0, lvl1, leaf - 1, p0, 2, False)
    steps = _steps([k0, 0], [c0, c1], [0, 0], 0)
    text = make_spec(steps, 0)
    if warm == 1:
        try:
            glom({'a': {'a': 1}}, text)
        except GlomError:
            pass
        reach('warm')
    elif warm == 2:
        gc.PATH_STAR = False
        try:
            glom([{'b': 2}], text, default=None)
        finally:
            gc.PATH_STAR = True
    elif warm == 3:
        vkit.stubs.overfill_path_cache()             # over-full cache, constructed directly
    return _check(t, steps, 0, False)


R4 = [0, 2, 4, 7]      # restricted kinds for deep walks: dict, list, object, None


# ---- "the access registered for each intermediate value's type": a user registration, made before or after the type was met ---
class Record:
    """values live in ._fields; the registered access looks there, plain getattr would not"""
    def __init__(self, **fields):
        self._fields = fields
        self.kind = 'attribute-kind'


def _record_get(rec, name):
    return rec._fields[name]


def registered_access(warm: bool, exact: bool, where: int, style: int, x: int) -> bool:
    import glom as glom_pkg
    from glom import Glommer
    start()
    where, style = concretize(where, 0, 1), concretize(style, 0, 2)
    if where is OUT or style is OUT:
        return True
    leaf = [x]
    rec = Record(name=leaf, kind=None)
    target = {'a': [{'r': rec}], 'r': rec}
    if where == 0:
        g = Glommer()
        ev, reg = g.glom, g.register
    else:
        ev, reg = glom, glom_pkg.register            # module-level registry (restored by the state reset)
    spell = lambda *segs: ['.'.join(segs), Path(*segs), Path(*[T[s] if i == 0 else s for i, s in enumerate(segs)])][style]
    if warm:
        # the type is met BEFORE it is registered: attribute access then
        if ev(target, spell('a', '0', 'r', 'kind') if style != 2 else Path('a', 0, 'r', 'kind')) != 'attribute-kind':
            return fail(why='before registration a Record is an attribute object')
    reg(Record, get=_record_get, exact=exact)
    reach('registered_access')
    got = run(lambda: ev(target, spell('r', 'name'), glom_debug=True))
    if got.kind != 'ok' or got.value is not leaf:
        return fail(why='the registered access must be used for the very next call', got=got, warm=warm, exact=exact)
    got = run(lambda: ev(target, spell('r', 'kind'), glom_debug=True))
    if got.kind != 'ok' or got.value is not None:
        return fail(why='a field shadowed by an attribute: the registered access decides', got=got)
    got = run(lambda: ev(target, spell('r', 'nofield', 'x'), glom_debug=True))
    ok = got.kind == 'err' and isinstance(got.exc, PathAccessError) and got.exc.part_idx == 1 and type(got.exc.exc) is KeyError
    return ok or fail(why='a failing registered access is the PathAccessError of that segment', got=got)


def _in(var, vals):
    return '(' + ' or '.join('%s == %d' % (var, v) for v in vals) + ')'


def obligations(tier):
    obs = []
    q = tier == 'quick'
    base = '0 <= length <= 3 and len(xs) <= 4'
    for kind in range(9):
        obs.append(Ob(step1, fixed={'kind': kind}, pre='0 <= ch < %d and 0 <= spelling <= 2 and %s' % (NSEG, base),
                      name='step1_%s' % KINDS[kind]))
    seg_small = [0, 2, 8, 9]       # valid-next, missing, symbolic int, int as text
    if q:
        for k0 in R4[:3]:
            for k1 in R4:
                for sp in range(3):
                    pre = ' and '.join([_in('k2', [0, 8, 7]), _in('c0', [0, 2]), _in('c1', [0, 2, 8]),
                                        _in('c2', [0, 2, 8]), 'len(xs) <= 3'])
                    obs.append(Ob(walk3, fixed={'k0': k0, 'k1': k1, 'spelling': sp, 'spy': True, 'p0': True, 'p1': True,
                                                'p2': True, 'l0': 2, 'l1': 2, 'l2': 2}, pre=pre,
                                  name='walk3_%s_%s_sp%d' % (KINDS[k0], KINDS[k1], sp)))
        for k0 in range(8):
            for sp in range(3):
                pre = ' and '.join(['0 <= k1 < 9', _in('c0', [0, 1]), _in('c1', [0, 1, 2, 6, 8, 9]), 'len(xs) <= 3'])
                obs.append(Ob(walk2, fixed={'k0': k0, 'spy': False, 'spelling': sp, 'p0': True, 'p1': True, 'l0': 2,
                                            'l1': 2}, pre=pre, name='walk2_%s_sp%d' % (KINDS[k0], sp)))
    else:
        # sized so that every obligation closes (a few hundred paths each): all kind pairs x spellings for depth 2 with every
        # segment choice at the second level; depth 3 and 4 over the representative kinds with lengths / presence fixed
        for k0 in range(8):
            for k1 in range(9):
                for sp in range(3):
                    pre = ' and '.join([_in('c0', [0, 1, 2, 6, 8, 9]), '0 <= c1 < %d' % NSEG, 'len(xs) <= 4'])
                    obs.append(Ob(walk2, fixed={'k0': k0, 'k1': k1, 'spelling': sp, 'spy': (k0 + k1 + sp) % 2 == 0, 'l0': 2, 'l1': 2}, pre=pre,
                                  name='walk2_%s_%s_sp%d' % (KINDS[k0], KINDS[k1], sp)))
        for k0 in R4:
            for k1 in R4:
                for sp in range(3):
                    pre = ' and '.join([_in('k2', R4 + [8]), _in('c0', seg_small), _in('c1', seg_small),
                                        _in('c2', [0, 1, 2, 8, 9]), 'len(xs) <= 4'])
                    obs.append(Ob(walk3, fixed={'k0': k0, 'k1': k1, 'spelling': sp, 'spy': True, 'p0': True, 'p1': True, 'p2': True,
                                                'l0': 2, 'l1': 3, 'l2': 2}, pre=pre,
                                  name='walk3_%s_%s_sp%d' % (KINDS[k0], KINDS[k1], sp)))
        for k0 in [0, 2, 4]:
            for k1 in [0, 2, 4]:
                for sp in range(3):
                    pre = ' and '.join([_in('k2', [0, 2, 4]), _in('k3', R4), _in('c0', [0, 2]), _in('c1', [0, 8]),
                                        _in('c2', [0, 2, 8]), _in('c3', seg_small)])
                    obs.append(Ob(walk4, fixed={'k0': k0, 'k1': k1, 'spelling': sp, 'p0': True, 'p1': True, 'p2': True, 'p3': True}, pre=pre,
                                  name='walk4_%s_%s_sp%d' % (KINDS[k0], KINDS[k1], sp)))
    for k0 in ([0, 2, 4] if q else range(8)):
        for sp in range(3):
            pre = ' and '.join([_in('k1', R4) if q else '0 <= k1 < 8', _in('c0', [0, 2]), _in('c1', [0, 2, 8] if q else seg_small)])
            obs.append(Ob(walk_wrapped, fixed={'k0': k0, 'spelling': sp, 'p0': True, 'p1': True}, pre=pre,
                          name='walk_wrapped_%s_sp%d' % (KINDS[k0], sp)))
    for warm in range(4):
        pre = ' and '.join([_in('k0', [0, 1, 4]), _in('c0', [0, 1, 2]), _in('c1', [0, 1, 2, 9])])
        obs.append(Ob(cache_indep, fixed={'warm': warm}, pre=pre, name='cache_indep_w%d' % warm))
    obs.append(Ob(registered_access, pre='0 <= where <= 1 and 0 <= style <= 2', name='registered_access'))
    obs.append(Ob(registered_access, pre='0 <= where <= 1 and 0 <= style <= 2', twin='registered_access', name='registered_access'))
    # vacuity twins
    tpre = '0 <= ch < %d and 0 <= spelling <= 2 and %s' % (NSEG, base)
    obs.append(Ob(step1, fixed={'kind': 2}, pre=tpre, twin='walk_ok', name='step1_list'))
    obs.append(Ob(step1, fixed={'kind': 2}, pre=tpre, twin='walk_err', name='step1_list'))
    pre = ' and '.join(['0 <= k1 < 9', _in('c0', [0, 1]), _in('c1', [0, 1, 2, 6, 8, 9]), 'len(xs) <= 3'])
    obs.append(Ob(walk2, fixed={'k0': 0, 'spy': False, 'spelling': 1, 'p0': True, 'p1': True, 'l0': 2, 'l1': 2}, pre=pre,
                  twin='walk_err_late', name='walk2_dict'))
    pre = ' and '.join([_in('k1', R4), _in('c0', [0, 2]), _in('c1', [0, 2, 8])])
    obs.append(Ob(walk_wrapped, fixed={'k0': 0, 'spelling': 1, 'p0': True, 'p1': True}, pre=pre, twin='wrapped',
                  name='walk_wrapped_dict'))
    return obs
