"""C11 -- assign obeys the lens laws and fails atomically."""
import copy
from typing import List

from glom import glom, assign, Assign, Path, T, S, Spec, Val, Coalesce, GlomError, PathAccessError, PathAssignError

from harness.mutlib import (SEGS, NFAM, FAMILIES, family, plain, ids, ref_assign, spell, pick_segs, Obj, Boom, step_get,
                            MyDict, MyList, ragged, ragged_path)
from vkit.common import start, reach, fail, known_open, concretize, OUT, run
from vkit.ob import Ob
import vkit.stubs  # noqa: F401

META = {
    'explanation': 'assign()/Assign are run on 13 target families (dicts, lists, objects, OrderedDict, None/tuple prefixes, '
                   'read-only property, __slots__, raising __setitem__/__setattr__, ordinary dict/list subclasses) with every '
                   '1-3 segment destination over an 8-segment alphabet in four addressing styles, symbolic values and list '
                   'indices, with and without missing= factories (dict, list, object, raising on the n-th call), through '
                   'wildcards and S-rooted paths, and compared with plain Python nested assignment on a deep copy: returned '
                   'object, resulting structure, identity of untouched nodes, atomicity on any error, factory-call count and '
                   'attach-last order.',
    'bounds': {
        'quick': {'path length': '1-3 over 5 segment texts (quick) / 8 (thorough)', 'values, list contents, indices': 'unbounded symbolic ints',
                  'list length': '<= 3', 'wildcards': '0-2'},
        'thorough': {'path length': '1-3 over 8 segment texts', 'list length': '<= 4'},
    },
    'stubs': ['S3 glom_debug=True', 'S4 state reset'],
    'outside_claim': ['paths longer than 3', 'user-registered assign handlers (C13)', 'error class on failure (the statement '
                      'only requires an error and an unchanged target)'],
    'assumptions': ['assigned list/dict values are rebuilt by argument mode (C08): read-back is compared with == and type'],
}


class CountingFactory:
    def __init__(self, kind, log, fail_at=0):
        self.kind, self.log, self.fail_at, self.n = kind, log, fail_at, 0

    def __call__(self):
        self.n += 1
        self.log.append('F')
        if self.fail_at and self.n == self.fail_at:
            raise Boom('factory')
        if self.kind == 1:
            return {}
        if self.kind == 2:
            return []
        return Obj()


def _assign_case(t, path, steps, v, mkind, fail_at=0):
    snap, before = plain(t), ids(t)
    glog, rlog = [], []
    fac = CountingFactory(mkind, glog, fail_at) if mkind else None
    rfac = CountingFactory(mkind, rlog, fail_at) if mkind else None
    try:
        exp = ref_assign(t, steps, v, rfac)
    except Boom:
        exp = ('err',)
    got = run(lambda: glom(t, Assign(path, v, missing=fac), glom_debug=True))
    if got.kind == 'err':
        reach('assign_err')
        if plain(t) != snap or ids(t) != before:
            return fail(why='failed assignment modified the target', t=t, snap=snap, err=got)
        if exp[0] == 'ok':
            return fail(why='assignment failed but plain Python assignment works', err=got, steps=steps, t=t)
        return True
    if exp[0] != 'ok':
        return fail(why='assignment succeeded but plain Python assignment fails', t=t, steps=steps)
    reach('assign_ok')
    if got.value is not t:
        return fail(why='must return the same object')
    if plain(t) != exp[1]:
        return fail(why='effect differs from plain Python assignment', t=t, exp=exp[1], steps=steps)
    if type(t) is not type(exp[1]):
        return fail(why='type')
    if mkind and fac.n != exp[2]:
        return fail(why='factory calls', n=fac.n, exp=exp[2], steps=steps)
    if mkind and exp[2] > 0:
        reach('assign_created')
    # untouched part keeps identity
    if 'z' in snap and isinstance(t, dict) and 'z' in t and len(steps) and steps[0][1] != 'z':
        if before[2] and [i for k, i in before[2] if k == 'z'] != [i for k, i in ids(t)[2] if k == 'z']:
            return fail(why='untouched node replaced')
    # reading the path yields val
    back = run(lambda: glom(t, path, glom_debug=True))
    if back.kind != 'ok' or not (back.value is v or back.value == v):
        return fail(why='read-back', back=back, v=v)
    return True


def assign_path(fam: int, style: int, n: int, c0: int, c1: int, c2: int, mkind: int, v: int, w: int) -> bool:
    """mkind: 0 no missing, 1 dict factory, 2 list factory, 3 object factory"""
    start()
    segs = pick_segs([c0, c1, c2][:n])
    if style == 0 and any(s == '' for s in segs):
        return True
    path, steps = spell(segs, style)
    t = family(fam, w)
    return _assign_case(t, path, steps, v, mkind)


def assign_list_idx(style: int, xs: List[int], i: int, v: int, nested: bool) -> bool:
    """symbolic list, symbolic index"""
    start()
    inner = xs
    t = {'a': [inner, 0] if nested else inner, 'z': [1]}
    before = list(xs)
    if nested:
        path = [Path('a', 0, i), T['a'][0][i], Path('a', '0', i)][style]
    else:
        path = [Path('a', i), T['a'][i], Path(T['a'], i)][style]
    got = run(lambda: glom(t, Assign(path, v), glom_debug=True))
    inr = -len(before) <= i < len(before)
    if got.kind == 'err':
        reach('idx_err')
        return (not inr and list(xs) == before) or fail(why='error', got=got, i=i, xs=xs, before=before)
    reach('idx_ok')
    exp = list(before)
    if not inr:
        return fail(why='out of range index accepted', i=i)
    exp[i] = v
    return (got.value is t and list(xs) == exp and (t['a'][0] if nested else t['a']) is xs) or fail(xs=xs, exp=exp)


def assign_missing_fail(fam: int, style: int, c0: int, c1: int, c2: int, mkind: int, fail_at: int, v: int) -> bool:
    """factory raising on its n-th call: nothing may be attached"""
    start()
    segs = pick_segs([c0, c1, c2])
    path, steps = spell(segs, style)
    t = family(fam, 7)
    return _assign_case(t, path, steps, v, mkind, fail_at=fail_at)


class SpyDict(dict):
    __slots__ = ()
    LOG = None

    def __setitem__(self, k, val):
        if SpyDict.LOG is not None:
            SpyDict.LOG.append(('set', k))
        dict.__setitem__(self, k, val)


def assign_attach_last(depth_present: int, style: int, v: int) -> bool:
    """missing=factory: every factory call happens before the single mutation of a pre-existing container"""
    start()
    log = []
    SpyDict.LOG = None
    t = SpyDict()
    cur = t
    for i in range(depth_present):
        nxt = SpyDict()
        dict.__setitem__(cur, 'abc'[i], nxt)
        cur = nxt
    SpyDict.LOG = log
    fac = CountingFactory(1, log)
    path, steps = spell(['a', 'b', 'c', 'x'], style)
    try:
        glom(t, Assign(path, v, missing=fac), glom_debug=True)
    finally:
        SpyDict.LOG = None
    reach('attach')
    absent = 3 - depth_present
    exp = ['F'] * absent + [('set', 'abcx'[depth_present])]
    if log != exp:
        return fail(why='order of factory calls and attachment', log=log, exp=exp)
    return glom(t, path) == v or fail(why='read-back')


def assign_wild(shape: int, n: int, v: int, a: int, b: int) -> bool:
    """a path containing wildcards assigns at every match, in order"""
    start()
    order = []

    class Rec(dict):
        __slots__ = ()

        def __setitem__(self, k, val):
            order.append(id(self))
            dict.__setitem__(self, k, val)
    kids = [Rec(v=a), Rec(v=b), Rec(v=a + b)][:n]
    if shape == 0:
        t, path, hit = {'xs': kids}, 'xs.*.v', kids
    elif shape == 1:
        t, path, hit = {'p': {'q': kids}}, Path('p', 'q', T.__star__(), 'v'), kids
    elif shape == 2:
        t = {'m': dict(('k%d' % i, k) for i, k in enumerate(kids))}
        path, hit = 'm.*.v', kids
    elif shape == 3:        # two wildcards
        t, path, hit = {'g': [kids[:1], kids[1:]]}, 'g.*.*.v', kids
    else:                   # ** : every dict below (and including) the start that can take the key
        t, path, hit = Rec(sub=Rec(leaf=Rec())), '**.v', None
    got = run(lambda: glom(t, Assign(path, v), glom_debug=True))
    reach('wild')
    if got.kind != 'ok':
        return fail(why='wildcard assign failed', got=got)
    if hit is None:
        return (t['v'] == v and t['sub']['v'] == v and t['sub']['leaf']['v'] == v) or fail(why='** assign', t=t)
    if n > 1:
        reach('wild_many')
    if [k['v'] for k in kids] != [v] * n:
        return fail(why='not every match assigned', kids=kids)
    return order == [id(k) for k in hit] or fail(why='order', order=order)


def _mk_parent(kind, v):
    if kind == 0:
        return [v, v + 1]
    if kind == 1:
        return {'0': v, 'k': v + 1}
    if kind == 2:
        return Obj(k=v, z=1)
    return {'k': v}


def assign_reuse(k1: int, k2: int, seg: int, style: int, v: int, w: int) -> bool:
    """ONE Assign spec object applied to parents of different kinds in successive calls"""
    start()
    k1, k2, seg = concretize(k1, 0, 3), concretize(k2, 0, 3), concretize(seg, 0, 1)
    if k1 is OUT or k2 is OUT or seg is OUT:
        return True
    name = ['0', 'k'][seg]
    path, steps = spell(['p', name], [0, 1][style])
    spec = Assign(path, v)
    for kind in (k1, k2):
        t = {'p': _mk_parent(kind, w), 'z': [1]}
        snap = plain(t)
        exp = ref_assign(t, steps, v, None)
        got = run(lambda: glom(t, spec, glom_debug=True))
        if exp[0] == 'ok':
            if got.kind != 'ok' or plain(t) != exp[1]:
                return fail(why='re-used Assign spec: effect differs from plain assignment', kind=kind, got=got, t=t, exp=exp[1])
        elif got.kind != 'err' or plain(t) != snap:
            return fail(why='re-used Assign spec: expected an error and an unchanged target', kind=kind, got=got, t=t)
    reach('reuse')
    if k1 != k2:
        reach('reuse_mixed')
    return True


def assign_wild_mixed(k0: int, k1: int, k2: int, seg: int, v: int, w: int) -> bool:
    """a wildcard whose matches are parents of different kinds: plain assignment at every match"""
    start()
    k0, k1, k2, seg = concretize(k0, 0, 3), concretize(k1, 0, 3), concretize(k2, 0, 3), concretize(seg, 0, 1)
    if OUT in (k0, k1, k2, seg):
        return True
    name = ['0', 'k'][seg]
    rows = [_mk_parent(k, w + i) for i, k in enumerate((k0, k1, k2))]
    exp_rows = []
    failed = False
    for i, k in enumerate((k0, k1, k2)):
        res = ref_assign({'r': _mk_parent(k, w + i)}, [('P', 'r'), ('P', name)], v, None)
        if res[0] != 'ok':
            failed = True
            break
        exp_rows.append(res[1]['r'])
    t = {'rows': rows}
    got = run(lambda: glom(t, Assign('rows.*.' + name, v), glom_debug=True))
    reach('wild_mixed')
    if failed:
        return got.kind == 'err' or fail(why='assignment impossible at one match must raise', got=got)
    return (got.kind == 'ok' and plain(rows) == plain(exp_rows)) or fail(why='wildcard assign over mixed parents', rows=rows, exp=exp_rows, got=got)


def assign_wild3(shape: int, v: int, a: int) -> bool:
    """three wildcards in the destination path"""
    start()
    leaf = lambda: {'d': a}
    if shape == 0:
        t = {'a': [{'b': [{'c': [leaf(), leaf()]}]}, {'b': [{'c': [leaf()]}]}]}
        path, hits = 'a.*.b.*.c.*.d', [t['a'][0]['b'][0]['c'][0], t['a'][0]['b'][0]['c'][1], t['a'][1]['b'][0]['c'][0]]
    else:
        t = [[[[a, 0], [a, 1]], [[a, 2]]], [[[a, 3]]]]
        path, hits = '*.*.*.0', None
    got = run(lambda: glom(t, Assign(path, v), glom_debug=True))
    reach('wild3')
    if got.kind != 'ok':
        return fail(why='three-wildcard assign failed', got=got)
    if hits is not None:
        return all(h['d'] == v for h in hits) or fail(why='not every match assigned', t=t)
    flat = [x for p in t for q in p for x in q]
    return all(x[0] == v for x in flat) or fail(why='not every match assigned', t=t)


def assign_wild_sizes(nw: int, final: int, style: int, s0: int, s1: int, s2: int, a: int, v: int) -> bool:
    """1-3 wildcards over ragged containers (empty ones included): the value arrives at EVERY match, nothing else changes,
    and when there is no match at all the assign is a no-op, not an error"""
    start()
    nw, final, style = concretize(nw, 1, 3), concretize(final, 0, 2), concretize(style, 0, 2)
    s0, s1, s2 = concretize(s0, 0, 2), concretize(s1, 0, 2), concretize(s2, 0, 2)
    if OUT in (nw, final, style, s0, s1, s2):
        return True
    t, leaves = ragged(nw, [s0, s1, s2], final, a)
    before = [copy.deepcopy(l) for l in leaves]
    got = run(lambda: glom(t, Assign(ragged_path(nw, final, style), v), glom_debug=True))
    reach('wild_sizes')
    if not leaves:
        reach('wild_no_match')
    if got.kind != 'ok' or got.value is not t:
        return fail(why='wildcard assign must succeed and return the target', got=got, n=len(leaves))
    for lf, b in zip(leaves, before):
        if final == 0:
            ok = lf['v'] == v and lf['keep'] == b['keep'] and len(lf) == 2
        elif final == 1:
            ok = lf[0] == v and lf[1:] == b[1:]
        else:
            ok = lf.v == v and lf.keep == b.keep
        if not ok:
            return fail(why='not assigned at every match (or something else changed)', leaf=lf, before=b, n=len(leaves))
    return True


class _Box:
    """a container type nothing is registered for by default: only a Glommer that registers it can look inside"""
    __slots__ = ('inner',)

    def __init__(self, inner):
        self.inner = inner


def assign_ctx(kind: int, xs: List[int], k: int, v: int) -> bool:
    """the parent of the element is looked up in the CURRENT evaluation context: scope variables used as keys / indices in
    the path (bound by the caller's scope= or by an earlier S(...) step) and handlers registered on the Glommer in use"""
    from glom import Glommer
    start()
    kind = concretize(kind, 0, 3)
    if kind is OUT or not (0 <= k < len(xs)):
        return True
    rows = [{'x': v, 'keep': i} for i, v in enumerate(xs)]
    t = {'rows': rows}
    if kind == 0:
        got = run(lambda: glom(t, Assign(T['rows'][S.k]['x'], v), scope={'k': k}, glom_debug=True))
    elif kind == 1:
        got = run(lambda: glom(t, (S(k=Val(k)), Assign(T['rows'][S['k']]['x'], v)), glom_debug=True))
    elif kind == 2:
        got = run(lambda: glom(t, (S(name=Val('rows')), Assign(Path(T[S['name']], k, 'x'), v)), glom_debug=True))
    else:
        g = Glommer()
        g.register(_Box, get=lambda box, name: box.inner[name])
        t = _Box({'rows': rows})
        got = run(lambda: g.glom(t, Assign(Path('rows', k, 'x'), v), glom_debug=True))
    reach('assign_ctx')
    if got.kind != 'ok':
        return fail(why='the parent exists: the assign must succeed', got=got, kind=kind)
    for i, r in enumerate(rows):
        if r['x'] != (v if i == k else xs[i]) or r['keep'] != i:
            return fail(why='exactly the addressed element is assigned', rows=rows, k=k, kind=kind)
    return True


def seg_named_x(name: int, shape: int, style: int, v: int, w: int) -> bool:
    """path segments that happen to be spelled like the internal wildcard markers ('x', 'X') are ordinary keys / attributes"""
    start()
    name, shape, style = concretize(name, 0, 2), concretize(shape, 0, 2), concretize(style, 0, 2)
    if OUT in (name, shape, style):
        return True
    nm = ['x', 'X', 'xX'][name]
    inner = [{'y': w, 'keep': 1}, {}, [{'y': w}]][shape]
    t = {'pos': {nm: inner}, nm: {'y': w}}
    segs = ['pos', nm, 'y']
    path = ['.'.join(segs), Path(*segs), T['pos'][nm]['y']][style]
    snap = copy.deepcopy(t)
    got = run(lambda: glom(t, Assign(path, v), glom_debug=True))
    reach('seg_named_x')
    if shape == 2:
        return (got.kind == 'err' and t == snap) or fail(why='a list parent has no key y: error, target unchanged', got=got, t=t)
    exp = copy.deepcopy(snap)
    exp['pos'][nm]['y'] = v
    return (got.kind == 'ok' and got.value is t and t == exp) or fail(why='plain nested assignment', got=got, t=t, exp=exp)


def assign_values(which: int, v: int, w: int) -> bool:
    """values: Spec / T of the target, containers (rebuilt, same type), self-referential containers"""
    start()
    t = {'src': {'n': v}, 'dst': {}, 'keep': [w]}
    keep = t['keep']
    if which == 0:
        assign(t, 'dst.x', Spec('src.n'))
        ok = t['dst']['x'] == v
    elif which == 1:
        assign(t, 'dst.x', T['src'])
        ok = t['dst']['x'] is t['src']
    elif which == 2:
        val = [v, {'k': w}, (v, w)]
        assign(t, 'dst.x', val)
        got = t['dst']['x']
        ok = got == val and type(got) is list and type(got[1]) is dict and type(got[2]) is tuple
    elif which == 3:
        val = [v]
        val.append(val)                      # self-referential
        assign(t, 'dst.x', val)
        got = t['dst']['x']
        ok = type(got) is list and len(got) == 2 and got[0] == v and got[1] is got
    elif which == 4:
        val = {'me': None, 'n': v}
        val['me'] = val
        assign(t, 'dst.x', val)
        got = t['dst']['x']
        ok = type(got) is dict and got['n'] == v and got['me'] is got
    elif which == 5:
        assign(t, 'dst.x', Val(T))           # Val keeps a T literal
        ok = t['dst']['x'] is T
    elif which == 6:                         # the target itself as value (argument mode rebuilds it first)
        before = copy.deepcopy(t)
        assign(t, 'dst.x', t)
        ok = t['dst']['x'] == before or t['dst']['x'] is t
    elif which == 8:     # Spec value together with missing= backfill: the value is the ORIGINAL target's
        assign(t, 'new.x.y', Spec('src.n'), missing=dict)
        ok = t['new'] == {'x': {'y': v}}
    elif which == 9:     # T value together with missing= backfill
        assign(t, 'dst.p.q', T['src'], missing=dict)
        ok = t['dst']['p']['q'] == t['src'] and t['dst']['p']['q'] == {'n': v}     # (rebuilt by argument mode on the backfill path)
    elif which == 10:    # S-expression value with backfill
        glom(t, (S(val=T['src']['n']), Assign('new2.a', S['val'], missing=dict)), glom_debug=True)
        ok = t['new2'] == {'a': v}
    elif 12 <= which <= 16:
        # the value is an instance of a dict / list SUBCLASS (a literal like any other object): the stored object is that very
        # object -- default_factory, instance attributes and contents intact -- also through missing= and a wildcard
        import collections
        val = [collections.defaultdict(list, {'k': [v]}), collections.Counter({'a': 2}), MyDict(k=v), MyList([v, w]),
               collections.OrderedDict([('z', v), ('a', w)])][which - 12]
        if which == 14:
            val.note = 'attribute'
        assign(t, 'dst.x', val)
        assign(t, 'made.up.x', val, missing=dict)
        t['rows'] = [{}, {}]
        assign(t, 'rows.*.x', val)
        ok = t['dst']['x'] is val and t['made']['up']['x'] is val and t['rows'][0]['x'] is val and t['rows'][1]['x'] is val
        ok = ok and (which != 12 or val.default_factory is list) and (which != 14 or val.note == 'attribute')
    else:
        glom(t, (S(acc=Val({})), Assign(S['acc']['y'], T['src']['n']), Assign('dst.x', S['acc'])), glom_debug=True)
        ok = t['dst']['x'] == {'y': v}
    reach('values')
    return (ok and t['keep'] is keep and t['src']['n'] == v) or fail(why='value kind', which=which, t=t)


def assign_missing_wild(shape: int, present: bool, v: int, w: int) -> bool:
    """missing= backfill combined with a wildcard in the part of the path that has to be created / that follows:
    either the plain-Python effect on every match, or an error with the target unchanged -- never a silent no-op"""
    start()
    shape = concretize(shape, 0, 3)
    if shape is OUT:
        return True
    calls = []

    def fac():
        calls.append(1)
        return {}
    if shape == 0:
        t = {'cfg': {'items': [{'flag': w}, {'flag': w}]}} if present else {}
        path = 'cfg.items.*.flag'
    elif shape == 1:
        t = {'a': {'b': {'p': {'c': w}, 'q': {'c': w}}}} if present else {'a': {}}
        path = T['a']['b'].__star__()['c']
    elif shape == 2:
        t = {'rows': [{'x': {'y': w}}, {'x': {}}]} if present else {'rows': [{}, {}]}
        path = 'rows.*.x.y'               # wildcard BEFORE the absent segments: every row is backfilled
    else:
        t = {'rows': []} if present else {}
        path = 'rows.*.x'
    snap = plain(t)
    got = run(lambda: glom(t, Assign(path, v, missing=fac), glom_debug=True))
    reach('missing_wild')
    if got.kind == 'err':
        return plain(t) == snap or fail(why='failed assignment modified the target', t=t, snap=snap)
    # success: reading the path must yield v at every match (an empty match list is fine only if there is nothing to match)
    back = run(lambda: glom(t, path, glom_debug=True))
    if back.kind != 'ok':
        return fail(why='assignment reported success but the path cannot be read back', back=back, t=t)
    vals = back.value
    if not isinstance(vals, list):
        return fail(why='wildcard read-back', vals=vals)
    if shape in (0, 1, 2) and present and len(vals) != 2:
        return fail(why='not every match assigned', vals=vals, t=t)
    if shape == 2 and not present and len(vals) not in (0, 2):
        # entries for which the steps after a wildcard fail are dropped (C14): 'no match, nothing assigned' is as
        # acceptable as backfilling every row; a partial assignment is not
        return fail(why='partial backfill', vals=vals, t=t)
    if shape == 2 and not present and len(vals) == 0 and plain(t) != snap:
        return fail(why='nothing readable but the target changed', t=t, snap=snap)
    if any(x != v for x in vals):
        return fail(why='read-back differs', vals=vals, v=v)
    return True


def assign_s_rooted(present: int, style: int, use_missing: bool, v: int, w: int) -> bool:
    """S-rooted destinations: S['acc']['a']['b'] with 0-2 of the intermediate containers present, with and without missing=;
    the Assign step returns its target, the scope variable gets plain nested assignment, nothing else in the scope changes"""
    start()
    present, style = concretize(present, 0, 2), concretize(style, 0, 1)
    if present is OUT or style is OUT:
        return True
    acc = {}
    if present >= 1:
        acc['a'] = {'keep': w}
    if present >= 2:
        acc['a']['b'] = w
    exp_acc = copy.deepcopy(acc)
    ok_expected = present >= 1 or use_missing
    if ok_expected:
        exp_acc.setdefault('a', {})['b'] = v
    dest = S['acc']['a']['b'] if style == 0 else Path(S['acc'], 'a', 'b')
    t = {'x': w}
    seen = {}

    def grab(tt):
        seen['t'] = tt
        return tt
    spec = (S(acc=Val(acc)), Assign(dest, v, missing=dict if use_missing else None), grab,
            {'acc': S['acc'], 'stray': Coalesce(S['b'], default='absent')})
    got = run(lambda: glom(t, spec, glom_debug=True))
    reach('s_rooted')
    if not ok_expected:
        return got.kind == 'err' or fail(why='missing intermediate without missing= must fail', got=got)
    if got.kind != 'ok':
        return fail(why='S-rooted assignment failed', got=got)
    if seen.get('t') is not t:
        return fail(why='the Assign step must return its target', seen=seen)
    if got.value['acc'] != exp_acc:
        return fail(why='scope variable differs from plain nested assignment', got=got.value['acc'], exp=exp_acc)
    if got.value['stray'] != 'absent':
        return fail(why='the assignment leaked a stray name into the scope', stray=got.value['stray'])
    return t == {'x': w} or fail(why='target touched', t=t)


def assign_fn(which: int, xs: List[int], v: int) -> bool:
    """assign() wrapper, Assign as a step inside a larger spec, attribute targets"""
    start()
    if which == 0:
        o = Obj(a=Obj(b=xs))
        r = assign(o, 'a.c', v)
        ok = r is o and o.a.c == v and o.a.b is xs
    elif which == 1:
        t = {'a': xs}
        r = glom(t, (Assign('b', v), 'b'), glom_debug=True)
        ok = r == v and t['b'] == v and t['a'] is xs
    elif which == 2:
        o = Obj(a={'l': xs})
        r = assign(o, T.a['k'], v)
        ok = r is o and o.a['k'] == v and o.a['l'] is xs
    else:
        o = Obj()
        r = assign(o, 'a.b.c', v, missing=Obj)
        ok = r is o and o.a.b.c == v
    reach('fn')
    return ok or fail(why='assign fn', which=which)


def _in(var, vals):
    return '(' + ' or '.join('%s == %d' % (var, v) for v in vals) + ')'


def obligations(tier):
    q = tier == 'quick'
    obs = []
    nseg = 5 if q else 8
    for fam in range(NFAM):
        for style in range(4):
            if style == 3 and fam not in (2, 6, 8, 10, 0):
                continue
            for n in (1, 2, 3):
                fx = {'fam': fam, 'style': style, 'n': n}
                if fam in (3, 5, 9, 12):
                    fx['w'] = 7      # deep copies of these containers realise their leaves: keep the old leaf concrete
                cs = ['c0', 'c1', 'c2']
                for c in cs[n:]:
                    fx[c] = 0
                if q and n == 3:
                    pre = ' and '.join(['0 <= c0 < 2'] + ['0 <= %s < %d' % (c, 4) for c in cs[1:n]]) + ' and ' + _in('mkind', [0, 1])
                else:
                    pre = ' and '.join('0 <= %s < %d' % (c, nseg) for c in cs[:n]) + ' and 0 <= mkind <= 3'
                obs.append(Ob(assign_path, fixed=fx, pre=pre, name='assign_path_%s_s%d_n%d' % (FAMILIES[fam], style, n), timeout=120))
    for style in range(3):
        for nested in (False, True):
            obs.append(Ob(assign_list_idx, fixed={'style': style, 'nested': nested}, pre='len(xs) <= %d' % (3 if q else 4),
                          name='assign_list_idx_s%d_n%d' % (style, nested)))
    for fam in (0, 7, 4):
        for fail_at in (1, 2):
            pre = '0 <= style <= 2 and 0 <= c0 < 2 and 0 <= c1 < 3 and 0 <= c2 < 3 and 1 <= mkind <= 3'
            obs.append(Ob(assign_missing_fail, fixed={'fam': fam, 'fail_at': fail_at}, pre=pre,
                          name='assign_missing_fail_%s_at%d' % (FAMILIES[fam], fail_at)))
    obs.append(Ob(assign_attach_last, pre='0 <= depth_present <= 3 and 0 <= style <= 2', name='assign_attach_last'))
    for shape in range(5):
        obs.append(Ob(assign_wild, fixed={'shape': shape}, pre='1 <= n <= 3', name='assign_wild_%d' % shape))
    obs.append(Ob(assign_values, pre='0 <= which <= 17', name='assign_values'))
    for k1 in range(4):
        obs.append(Ob(assign_reuse, fixed={'k1': k1}, pre='0 <= k2 <= 3 and 0 <= seg <= 1 and 0 <= style <= 1', name='assign_reuse_%d' % k1))
        obs.append(Ob(assign_wild_mixed, fixed={'k0': k1}, pre='0 <= k1 <= 3 and 0 <= k2 <= 3 and 0 <= seg <= 1', name='assign_wild_mixed_%d' % k1))
    obs.append(Ob(assign_wild3, pre='0 <= shape <= 1', name='assign_wild3'))
    obs.append(Ob(seg_named_x, pre='0 <= name <= 2 and 0 <= shape <= 2 and 0 <= style <= 2', name='seg_named_x'))
    obs.append(Ob(seg_named_x, pre='0 <= name <= 2 and 0 <= shape <= 2 and 0 <= style <= 2', twin='seg_named_x', name='seg_named_x'))
    obs.append(Ob(assign_ctx, pre='0 <= kind <= 3 and len(xs) <= 3', name='assign_ctx'))
    obs.append(Ob(assign_ctx, pre='0 <= kind <= 3 and len(xs) <= 3', twin='assign_ctx', name='assign_ctx'))
    wp = '0 <= style <= 2 and 0 <= s0 <= 2 and 0 <= s1 <= 2 and 0 <= s2 <= 2'
    for nw in (1, 2, 3):
        for final in range(3):
            obs.append(Ob(assign_wild_sizes, fixed={'nw': nw, 'final': final}, pre=wp, name='assign_wild_sizes_w%d_f%d' % (nw, final), timeout=150))
    obs.append(Ob(assign_wild_sizes, fixed={'nw': 2, 'final': 0}, pre=wp, twin='wild_no_match', name='assign_wild_sizes_w2_f0'))
    obs.append(Ob(assign_s_rooted, pre='0 <= present <= 2 and 0 <= style <= 1', name='assign_s_rooted'))
    obs.append(Ob(assign_missing_wild, pre='0 <= shape <= 3', name='assign_missing_wild'))
    obs.append(Ob(assign_fn, pre='0 <= which <= 3 and len(xs) <= 2', name='assign_fn'))
    # twins
    tp = '0 <= c0 < 5 and 0 <= c1 < 5 and 0 <= mkind <= 3'
    fx = {'fam': 0, 'style': 0, 'n': 2, 'c2': 0}
    obs.append(Ob(assign_path, fixed=fx, pre=tp, twin='assign_err', name='assign_path_dicts'))
    obs.append(Ob(assign_path, fixed=fx, pre=tp, twin='assign_ok', name='assign_path_dicts'))
    obs.append(Ob(assign_path, fixed=fx, pre=tp, twin='assign_created', name='assign_path_dicts'))
    obs.append(Ob(assign_list_idx, fixed={'style': 0, 'nested': False}, pre='len(xs) <= 3', twin='idx_err', name='assign_list_idx'))
    obs.append(Ob(assign_wild, fixed={'shape': 0}, pre='1 <= n <= 3', twin='wild_many', name='assign_wild_0'))
    obs.append(Ob(assign_reuse, fixed={'k1': 0}, pre='0 <= k2 <= 3 and 0 <= seg <= 1 and 0 <= style <= 1', twin='reuse_mixed', name='assign_reuse_0'))
    return obs
