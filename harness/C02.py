"""C02 -- T expressions replay exactly the recorded operations on the target."""
from typing import List, Optional

from glom import glom, T, S, Spec, Val, PathAccessError, Path
import glom.core as gc

from vkit.common import start, reach, fail, known_open, concretize, OUT
from vkit.ob import Ob
import vkit.stubs  # noqa: F401

META = {
    'explanation': 'T-expression chains built from decision variables are evaluated by the real glom()/_t_eval and '
                   'compared with the same Python operators applied directly (value, or position and class of the '
                   'first failing operation).',
    'bounds': {
        'quick': {'arith chain length': '<= 3', 'operands/targets': 'unbounded symbolic ints', '** exponent': '0..3',
                  'access chains': 'lists <= 4, slice i,j,k unbounded or None',
                  'argument order': '3-4 steps, failing operation x failing nested argument x kind of the last step, recorder in the target',
                  'container operands': '10 binary operators x 11 x 11 operand kinds (list tuple set frozenset dict str bytearray bytes float bool None), twice per target'},
        'thorough': {'arith chain length': '<= 4', 'operands/targets': 'unbounded symbolic ints', '** exponent': '0..3',
                     'access chains': 'lists <= 4'},
    },
    'stubs': ['S3 glom_debug=True (public kwarg)', 'S4 state reset'],
    'outside_claim': ['chained float arithmetic ("/" only as last operation)', 'exceptions raised by a called function '
                      '(C04)', 'T[::0] ValueError and T() on non-callables (interpretive, DESIGN.md section 6)'],
    'assumptions': ['slice step != 0'],
}

# op codes
ADD, SUB, MUL, FLOORDIV, MOD, AND, OR, XOR, INV, NEG, POW, TRUEDIV = range(12)
OPNAMES = ['+', '-', '*', '//', '%', '&', '|', '^', '~', 'neg', '**', '/']


def apply_op(v, code, arg):
    """The same Python operator, applied either to a T expression (recording) or to a value."""
    if code == ADD:
        return v + arg
    if code == SUB:
        return v - arg
    if code == MUL:
        return v * arg
    if code == FLOORDIV:
        return v // arg
    if code == MOD:
        return v % arg
    if code == AND:
        return v & arg
    if code == OR:
        return v | arg
    if code == XOR:
        return v ^ arg
    if code == INV:
        return ~v
    if code == NEG:
        return -v
    if code == POW:
        return v ** arg
    return v / arg


def _chain(codes, args, x):
    spec = T
    for c, a in zip(codes, args):
        spec = apply_op(spec, c, a)
    # reference: same operators directly on the target
    cur, fail_at, fail_type = x, None, None
    for i, (c, a) in enumerate(zip(codes, args)):
        try:
            cur = apply_op(cur, c, a)
        except (TypeError, ZeroDivisionError) as e:
            fail_at, fail_type = i, type(e)
            break
    try:
        got = glom(x, spec, glom_debug=True)
    except PathAccessError as e:
        reach('fails')
        if fail_at is None:
            return fail(why='unexpected PAE', part_idx=e.part_idx, exc=e.exc)
        if e.part_idx != fail_at or type(e.exc) is not fail_type:
            return fail(why='wrong position/class', part_idx=e.part_idx, exc=e.exc, expected=(fail_at, fail_type))
        return True
    if fail_at is not None:
        return fail(why='expected failure', at=fail_at, got=got)
    reach('value')
    if got == cur:
        return True
    return fail(why='value differs', got=got, expected=cur, codes=codes, args=args, x=x)


def truediv1(x: int, a0: int) -> bool:
    start()
    x, a0 = concretize(x, -8, 8), concretize(a0, -2, 2)
    return _chain([TRUEDIV], [a0], x)


def arith1(c0: int, x: int, a0: int) -> bool:
    start()
    if c0 == POW and not (0 <= a0 <= 3):
        return True
    return _chain([c0], [a0], x)


def arith2(c0: int, c1: int, x: int, a0: int, a1: int) -> bool:
    start()
    if (c0 == POW and not (0 <= a0 <= 3)) or (c1 == POW and not (0 <= a1 <= 3)):
        return True
    if c0 == TRUEDIV:
        return True   # "/" only as the last operation (floats are outside the claim)
    return _chain([c0, c1], [a0, a1], x)


def arith3(c0: int, c1: int, c2: int, x: int, a0: int, a1: int, a2: int) -> bool:
    start()
    if (c0 == POW and not (0 <= a0 <= 3)) or (c1 == POW and not (0 <= a1 <= 3)) or (c2 == POW and not (0 <= a2 <= 3)):
        return True
    if c0 == TRUEDIV or c1 == TRUEDIV:
        return True
    return _chain([c0, c1, c2], [a0, a1, a2], x)



def arith4(c0: int, c1: int, c2: int, c3: int, x: int, a0: int, a1: int, a2: int, a3: int) -> bool:
    start()
    cs, as_ = [c0, c1, c2, c3], [a0, a1, a2, a3]
    for c, a in zip(cs, as_):
        if c == POW and not (0 <= a <= 3):
            return True
    if c0 == TRUEDIV or c1 == TRUEDIV or c2 == TRUEDIV:
        return True
    return _chain(cs, as_, x)


# ---- nested T / Spec arguments are evaluated against the ORIGINAL target ------------------------
class Rec:
    """callable that records exactly what it was called with"""
    def __init__(self):
        self.calls = []

    def __call__(self, *a, **kw):
        self.calls.append((a, kw))
        return len(self.calls)


def _marker(t):
    return 'marker-called'


def nested_arg(shape: int, x: int, y: int, w: int, k: int, xs: List[int], i: int) -> bool:
    start()
    rec = Rec()
    sub = {'v': x, 'w': w + 1, 'b': y - 1}
    t = {'a': x, 'b': y, 'w': w, 'xs': xs, 'i': i, 'sub': sub, 'f': rec, 'kk': 'b', 'd': {'b': y, 'zz': k}}
    exp_err = None
    if shape == 0:
        spec = (T['a'] + k) * T['b']
        exp = (x + k) * y
    elif shape == 1:      # argument must come from the root target, not from T['sub']
        spec = T['sub']['v'] + T['w']
        exp = x + w
    elif shape == 2:
        spec = T['xs'][T['i']]
        if -len(xs) <= i < len(xs):
            exp = xs[i]
        else:
            exp_err = (1, IndexError)
    elif shape == 3:
        spec = T['sub']['v'] - Spec(T['b'])
        exp = x - y
    elif shape == 4:      # Spec with a string path as argument
        spec = T['sub']['v'] * Spec('sub.b')
        exp = x * (y - 1)
    elif shape == 5:      # item key given by T
        spec = T['d'][T['kk']]
        exp = y
    elif shape == 6:      # method call with a T argument and a literal argument
        spec = T['d'].get(T['kk'], k)
        exp = y
    elif shape == 7:      # missing key -> literal default is passed through
        spec = T['d'].get('nope', k)
        exp = k
    elif shape == 8:      # strings, None, numbers and callables are passed literally; T/Spec evaluated
        spec = T['f'](T['a'], 'a', None, k, _marker, Spec('b'), kw=T['w'], s='w')
        exp = 1
    elif shape == 9:      # failing nested argument: the error surfaces (position of the nested expr = 0)
        spec = T['a'] + T['nope']
        exp_err = (0, KeyError)
    elif shape == 10:     # double nesting
        spec = T['xs'][T['i'] - T['sub']['w'] + T['w'] + 1]
        if -len(xs) <= i < len(xs):
            exp = xs[i]
        else:
            exp_err = (1, IndexError)
    else:                 # nested S expression as argument
        spec = (S(q=T['b']), T['a'] + S['q'])
        exp = x + y
    try:
        got = glom(t, spec, glom_debug=True)
    except PathAccessError as e:
        reach('nested_fails')
        if exp_err is None:
            return fail(why='unexpected PAE', e=e)
        if e.part_idx != exp_err[0] or type(e.exc) is not exp_err[1]:
            return fail(why='wrong pos/class', e=e, expected=exp_err)
        return True
    if exp_err is not None:
        return fail(why='expected error', got=got)
    reach('nested_value')
    if shape == 8:
        if len(rec.calls) != 1:
            return fail(why='call count', calls=rec.calls)
        a, kw = rec.calls[0]
        ok = (len(a) == 6 and a[0] == x and a[1] == 'a' and a[2] is None and a[3] == k and a[4] is _marker
              and a[5] == y and kw == {'kw': w, 's': 'w'})
        return ok or fail(why='args not passed as documented', a=a, kw=kw)
    return got == exp or fail(why='value', got=got, exp=exp)


# ---- arguments are evaluated step by step, in order, only up to the first failing operation -------
class Passer:
    """callable in the target: records (step, value) and hands the value on"""
    def __init__(self):
        self.log = []

    def __call__(self, step, value):
        self.log.append(step)
        return value


def arg_order(fop: int, farg: int, last: int, x: int) -> bool:
    """T['d'][a0][a1][a2] (+ a3): every a_k is a nested expression T['rec'](k, T['i<k>']) evaluated against the root target.
    Direct Python evaluates a_k when step k is applied: a failing operation k (part k+1 of the expression) is reported
    before any later argument is looked at, and no later argument is evaluated (the recorder shows which were)."""
    start()
    fop, farg, last = concretize(fop, -1, 3), concretize(farg, -1, 3), concretize(last, 0, 2)
    if fop is OUT or farg is OUT or last is OUT:
        return True
    rec = Passer()
    t = {'d': {'k0': {'k1': {'k2': x}}}, 'i0': 'k0', 'i1': 'k1', 'i2': 'k2', 'i3': 1, 'rec': rec}
    if 0 <= fop <= 2:
        t['i%d' % fop] = 'missing'
    elif fop == 3:
        t['i3'] = None
    args = [T['rec'](k, T['i%d' % k] if k != farg else T['nope']) for k in range(4)]
    spec = T['d'][args[0]][args[1]][args[2]]
    n = 3
    if last == 1:
        spec, n = spec + args[3], 4
    elif last == 2:
        spec, n = spec * Spec(args[3]), 4
    # reference: the same steps applied directly
    exp_log, exp = [], None
    cur = t['d']
    for k in range(n):
        if k == farg:
            exp = ('nested', 1)                  # T['rec'](k, T['nope']): the failing operation of the NESTED expression is its
            break                                # own part 1 (['rec'] is part 0, the call is part 1; T['nope'] inside it: part 0)
        exp_log.append(k)
        if k == fop:
            exp = ('outer', k + 1)
            break
        cur = cur[t['i%d' % k]] if k < 3 else (cur + 1 if last == 1 else cur * 1)
    try:
        got = glom(t, spec, glom_debug=True)
    except PathAccessError as e:
        reach('arg_order_fails')
        if exp is None:
            return fail(why='unexpected PathAccessError', e=e)
        if exp[0] == 'outer':
            if e.part_idx != exp[1] or e.path.path_t is not spec:
                return fail(why='the first failing operation and its position', part_idx=e.part_idx, exp=exp, path=e.path)
        else:
            if 'nope' not in repr(e.path) or e.part_idx != 0:
                return fail(why='the failing nested argument surfaces as itself', part_idx=e.part_idx, path=e.path)
        return rec.log == exp_log or fail(why='arguments evaluated', log=rec.log, exp_log=exp_log)
    if exp is not None:
        return fail(why='expected a PathAccessError', got=got, exp=exp)
    reach('arg_order_value')
    return (got == cur and rec.log == exp_log) or fail(why='value / arguments evaluated', got=got, exp=cur, log=rec.log)


# ---- arithmetic on container / text operands: exactly `left op right`, never in place ----------------
def _operand(kind, a, b):
    return [[a, b], (a, b), {a, b}, frozenset([a, b]), {a: b}, 'ab', bytearray(b'ab'), b'ab', a + 0.5, a == b, None][kind]


N_OPERANDS = 11


def arith_containers(op: int, lk: int, rk: int, a: int) -> bool:
    """left operand taken from the target, right operand a literal: the result (or the failure class) is that of the plain
    binary operator -- list + tuple is a TypeError, not an extend -- and the target is left exactly as it was.
    (set vs frozenset of a mixed set operation is not compared: the engine's set model differs from CPython there)"""
    import copy
    start()
    op, lk, rk = concretize(op, 0, 11), concretize(lk, 0, N_OPERANDS - 1), concretize(rk, 0, N_OPERANDS - 1)
    a, b = concretize(a, 0, 2), 1
    if OUT in (op, lk, rk, a, b) or (op == POW and lk >= 8 and rk >= 8):
        return True
    if op in (INV, NEG) and rk != 0:
        return True                      # unary operators: the right operand is unused
    left, right = _operand(lk, a, b), _operand(rk, b, a)
    t = {'l': left}
    snap = copy.deepcopy(t)
    try:
        exp = ('ok', apply_op(copy.deepcopy(left), op, copy.deepcopy(right)))
    except Exception as e:
        exp = ('err', type(e))
    spec = apply_op(T['l'], op, right)
    outs = []
    for _ in range(2):
        try:
            outs.append(('ok', glom(t, spec, glom_debug=True)))
        except PathAccessError as e:
            outs.append(('err', type(e.exc)))
        if t != snap or type(t['l']) is not type(snap['l']):
            return fail(why='the target was modified by evaluating an arithmetic T expression', t=t, snap=snap)
    reach('arith_containers')
    for o in outs:
        if o[0] != exp[0] or (o[0] == 'err' and o[1] is not exp[1]) or (o[0] == 'ok' and not (o[1] == exp[1] and (type(o[1]) is type(exp[1]) or isinstance(exp[1], (set, frozenset))))):
            return fail(why='not what the plain operator gives', got=o, exp=exp, left=left, right=right, op=OPNAMES[op])
    if outs[0][0] == 'ok' and outs[0][1] is t['l'] and lk in (0, 2, 4, 6):      # a mutable container of the target
        return fail(why='the result is the very container from the target (operated on in place)')
    return True


# ---- one spec object, several targets: every evaluation resolves its nested arguments afresh ---------------------------
def _fmt(*a, **kw):
    return (a, sorted(kw.items()))


def reeval_args(kind: int, x: int, y: int, miss: int) -> bool:
    """the SAME T expression -- with nested T inside keyword arguments / list, dict and tuple arguments / operands -- is
    evaluated on target 1, target 2 and target 1 again (optionally after an evaluation whose nested argument failed):
    each result is what the call gives directly on that target"""
    start()
    kind, miss = concretize(kind, 0, 6), concretize(miss, 0, 2)
    if kind is OUT or miss is OUT:
        return True
    t1 = {'f': _fmt, 'name': x, 'n': y, 'xs': [x, y]}
    t2 = {'f': _fmt, 'name': y + 1, 'n': x - 1, 'xs': [y, x, 0]}
    broken = {'f': _fmt, 'n': 0, 'xs': []}                     # no 'name': the nested argument fails here
    spec = [T['f'](name=T['name']),
            T['f']([T['name'], T['n']]),
            T['f']({'k': T['name'], 'lit': 'name'}),
            T['f']((T['name'],), k=[T['n']]),
            T['xs'] + [T['name']],
            T['f']([], {}, k=[]),
            T['f'](T['name'], [[T['n']]], k={'d': {'e': T['name']}})][kind]

    def direct(t):
        return [lambda: _fmt(name=t['name']), lambda: _fmt([t['name'], t['n']]), lambda: _fmt({'k': t['name'], 'lit': 'name'}),
                lambda: _fmt((t['name'],), k=[t['n']]), lambda: t['xs'] + [t['name']], lambda: _fmt([], {}, k=[]),
                lambda: _fmt(t['name'], [[t['n']]], k={'d': {'e': t['name']}})][kind]()
    seq = [t1, t2, t1]
    if miss == 1:
        seq = [broken, t1, t2]
    elif miss == 2:
        seq = [t1, broken, t2, t1]
    results = []
    for t in seq:
        try:
            got = glom(t, spec, glom_debug=True)
        except PathAccessError:
            if t is not broken or kind == 5:
                return fail(why='unexpected PathAccessError', t=t)
            continue
        if t is broken and kind != 5:
            return fail(why='the nested argument cannot be resolved on this target', got=got)
        exp = direct(t)
        if got != exp:
            return fail(why='an earlier evaluation shows through in the arguments', got=got, exp=exp, kind=kind, miss=miss)
        results.append(got)
    reach('reeval_args')
    if kind == 5 and len(results) >= 2:
        a0, a1 = results[0][0], results[1][0]
        if a0[0] is a1[0] or a0[1] is a1[1]:
            return fail(why='a literal container argument is rebuilt for every evaluation')
    return True


# ---- literal arguments of every other kind are passed through literally ------------------------
import collections as _collections

Point = _collections.namedtuple('Point', 'x y')


class LitList(list):
    pass


class LitDict(dict):
    pass


def literal_args(kind: int, pos: int, x: int, y: int) -> bool:
    """kind: which literal; pos: 0 call argument, 1 item index, 2 keyword argument, 3 arithmetic operand.
    Containers that are exactly tuple/list/dict/set/frozenset are rebuilt (equal value, same type, embedded T evaluated);
    anything else -- subclasses such as a namedtuple included -- reaches the operation as the very same object."""
    start()
    kind, x, y = concretize(kind, 0, 11), concretize(x, 0, 1), concretize(y, 2, 3)
    if kind is OUT or x is OUT or y is OUT:
        return True
    rec = Rec()
    lits = [Point(x, y), LitList([x, y]), LitDict(k=x), (x, 'a', None), frozenset([1, 2]), 'a.b', 3.5, None, len, b'bytes',
            (T['a'], 'lit'), [T['a'], {'k': T['b']}]]
    lit = lits[kind]
    exact_rebuilt = type(lit) in (tuple, list, dict, set, frozenset)
    expect = lit
    if kind == 10:
        expect = (x, 'lit')
    elif kind == 11:
        expect = [x, {'k': y}]
    t = {'a': x, 'b': y, 'f': rec, 'cells': {Point(x, y): 'cell', (x, 'a', None): 'tup', 'a.b': 'str', None: 'none', 3.5: 'flt',
                                              frozenset([1, 2]): 'fs', (x, 'lit'): 'evaluated'}}
    if pos == 0:
        glom(t, T['f'](lit), glom_debug=True)
        got = rec.calls[0][0][0]
    elif pos == 2:
        glom(t, T['f'](kw=lit), glom_debug=True)
        got = rec.calls[0][1]['kw']
    elif pos == 1:
        try:
            hash(lit)
        except TypeError:
            return True
        if expect not in t['cells']:
            return True
        got_v = glom(t, T['cells'][lit], glom_debug=True)
        reach('literal_index')
        return got_v == t['cells'][expect] or fail(why='index literal', got=got_v)
    else:
        if kind not in (0, 3, 10):
            return True
        base = (0,)
        got = glom({'a': x, 'b': y, 'base': base}, T['base'] + lit, glom_debug=True)
        reach('literal_operand')
        return (got == base + tuple(expect) and type(got) is tuple) or fail(why='operand literal', got=got)
    reach('literal_arg')
    if exact_rebuilt:
        ok = got == expect and type(got) is type(expect)
    else:
        ok = got is lit
    return ok or fail(why='literal argument not passed through as documented', got=got, lit=lit, kind=kind)


def build_twice(op: int, k1: int, k2: int, x: int) -> bool:
    """two expressions built one after the other that differ only in an equal-valued literal of another type
    (1, 1.0, True): each evaluates like its own Python expression"""
    start()
    k1, k2, x = concretize(k1, 0, 4), concretize(k2, 0, 4), concretize(x, -2, 2)
    if k1 is OUT or k2 is OUT or x is OUT:
        return True
    lits = [1, 1.0, True, 2, 2.0]
    a, b = lits[k1], lits[k2]
    first = apply_op(T['v'], op, a)
    second = apply_op(T['v'], op, b)
    t = {'v': x}
    ok = True
    for spec, lit in ((first, a), (second, b)):
        try:
            exp = ('ok', apply_op(x, op, lit))
        except (TypeError, ZeroDivisionError) as e:
            exp = ('err', type(e))
        try:
            got = ('ok', glom(t, spec, glom_debug=True))
        except PathAccessError as e:
            got = ('err', type(e.exc))
        if exp[0] != got[0]:
            return fail(why='outcome kind', got=got, exp=exp, lit=lit)
        if exp[0] == 'ok' and not (got[1] == exp[1] and type(got[1]) is type(exp[1])):
            return fail(why='value or result type differs from the Python expression', got=got, exp=exp, lit=lit)
    reach('build_twice')
    return ok


# ---- access chains: .attr  [key]  [i]  [i:j:k]  .method(args) -----------------------------------
class NS:
    def __init__(self, **kw):
        self.__dict__.update(kw)


def apply_step(v, kind, i, j, k, a):
    """One recorded operation; applied to T it records, applied to a value it executes."""
    if kind == 0:
        return v.a
    if kind == 1:
        return v.zz            # missing attribute on every value in the family
    if kind == 2:
        return v['k']
    if kind == 3:
        return v['nope']
    if kind == 4:
        return v[i]
    if kind == 5:
        return v[i:j:k]
    if kind == 6:
        return v.xs
    if kind == 7:
        return v.d
    if kind == 8:
        return v['xs']
    return v['o']


N_STEP_KINDS = 10


def _access(kinds, xs, x, y, i, j, k, a):
    inner = NS(a=y, xs=xs, d={'k': x})
    t = NS(a=x, xs=xs, d={'k': y, 'xs': xs, 'o': inner})
    spec = T
    for kd in kinds:
        spec = apply_step(spec, kd, i, j, k, a)
    cur, exp_err = t, None
    for pos, kd in enumerate(kinds):
        try:
            cur = apply_step(cur, kd, i, j, k, a)
        except AttributeError as e:
            exp_err = (pos, AttributeError) if kd in (0, 1, 6, 7) else ('raw', type(e))
            break
        except (KeyError, IndexError, TypeError) as e:
            exp_err = (pos, type(e)) if kd not in (0, 1, 6, 7) else ('raw', type(e))
            break
    try:
        got = glom(t, spec, glom_debug=True)
    except PathAccessError as e:
        reach('access_fails')
        if exp_err is None or exp_err[0] == 'raw':
            return fail(why='unexpected PAE', e=e, exp=exp_err)
        if e.part_idx != exp_err[0] or type(e.exc) is not exp_err[1]:
            return fail(why='wrong pos/class', e=e, expected=exp_err)
        # it is also a GlomError / KeyError / IndexError / AttributeError
        return True
    if exp_err is not None:
        return fail(why='expected error', got=got, exp=exp_err)
    reach('access_value')
    if isinstance(cur, (NS, dict)):
        return got is cur or fail(why='identity', got=got, exp=cur)
    if isinstance(cur, list):
        return got == cur or fail(why='list value', got=got, exp=cur)
    return got == cur or fail(why='value', got=got, exp=cur)


def access2(c0: int, c1: int, xs: List[int], x: int, y: int, i: int, j: Optional[int], k: Optional[int]) -> bool:
    start()
    if k == 0:
        return True
    return _access([c0, c1], xs, x, y, i, j, k, 0)


def access3(c0: int, c1: int, c2: int, xs: List[int], x: int, y: int, i: int, j: Optional[int],
            k: Optional[int]) -> bool:
    start()
    if k == 0:
        return True
    return _access([c0, c1, c2], xs, x, y, i, j, k, 0)


def slice_full(xs: List[int], i: Optional[int], j: Optional[int], k: Optional[int]) -> bool:
    """T[i:j:k] on a list, every component symbolic or None"""
    start()
    if k == 0:
        return True
    got = glom(xs, T[i:j:k], glom_debug=True)
    reach('slice')
    return got == xs[i:j:k] or fail(got=got, exp=xs[i:j:k])


def method_call(which: int, xs: List[int], v: int, d: int) -> bool:
    """method calls with positional / keyword arguments"""
    start()
    t = NS(xs=xs, d={'k': v})
    if which == 0:
        got, exp = glom(t, T.xs.count(v), glom_debug=True), xs.count(v)
    elif which == 1:
        got, exp = glom(t, T.d.get('k', d), glom_debug=True), v
    elif which == 2:
        got, exp = glom(t, T.d.get('q', d), glom_debug=True), d
    elif which == 3:
        got, exp = glom(t, T.d.pop('k', None), glom_debug=True), v
    elif which == 4:
        got, exp = glom(xs, T.copy().__('len__')(), glom_debug=True), len(xs)
    else:
        try:
            got = glom(t, T.xs.nomethod(v), glom_debug=True)
        except PathAccessError as e:
            reach('method_missing')
            return (e.part_idx == 1 and type(e.exc) is AttributeError) or fail(e=e)
        return fail(why='expected PAE', got=got)
    reach('method_value')
    return got == exp or fail(got=got, exp=exp)


ARITH = [ADD, SUB, MUL, FLOORDIV, MOD, INV, NEG, POW]            # decided symbolically, operands unbounded
BITS = [AND, OR, XOR]                                            # realised by the engine -> small domains


def bits1(c0: int, x: int, a0: int) -> bool:
    start()
    x, a0 = concretize(x, -4, 3), concretize(a0, -4, 3)
    return _chain([c0], [a0], x)


def bits2(c0: int, c1: int, x: int, a0: int, a1: int) -> bool:
    start()
    if (c0 == POW and a0 < 0) or (c1 == POW and a1 < 0):
        return True
    if c0 == TRUEDIV:
        return True
    if c0 not in (AND, OR, XOR) and c1 not in (AND, OR, XOR):
        return True      # covered by arith2 with unbounded operands
    x, a0, a1 = concretize(x, -2, 2), concretize(a0, -2, 2), concretize(a1, -2, 2)
    return _chain([c0, c1], [a0, a1], x)


OPNAMES_ID = ['add', 'sub', 'mul', 'floordiv', 'mod', 'and', 'or', 'xor', 'inv', 'neg', 'pow', 'truediv']
_IN_ARITH = '(%s)' % ' or '.join('{v} == %d' % c for c in ARITH)


def _arith_pre(var, last=False):
    s = _IN_ARITH.format(v=var)
    if last:
        s = s[:-1] + ' or %s == %d)' % (var, TRUEDIV)
    return s


def obligations(tier):
    obs = []
    # length 1: every operator; "/" and bitwise operators over a finite domain
    for c0 in ARITH:
        obs.append(Ob(arith1, fixed={'c0': c0}, name='arith1_%s' % OPNAMES_ID[c0]))
    obs.append(Ob(truediv1, pre='-8 <= x <= 8 and -2 <= a0 <= 2', name='truediv1'))
    for c0 in BITS:
        obs.append(Ob(bits1, fixed={'c0': c0}, pre='-4 <= x <= 3 and -4 <= a0 <= 3', name='bits1_%s' % OPNAMES_ID[c0]))
    # length 2: first operator fixed, second symbolic
    for c0 in ARITH:
        obs.append(Ob(arith2, fixed={'c0': c0}, pre=_arith_pre('c1'), name='arith2_%s_any' % OPNAMES_ID[c0]))
    # length 3: two fixed, last symbolic
    for c0 in ARITH:
        for c1 in ARITH:
            obs.append(Ob(arith3, fixed={'c0': c0, 'c1': c1}, pre=_arith_pre('c2'),
                          name='arith3_%s_%s_any' % (OPNAMES_ID[c0], OPNAMES_ID[c1])))
    if tier == 'thorough':
        for c0 in ARITH:
            for c1 in ARITH:
                for c2 in ARITH:
                    obs.append(Ob(arith4, fixed={'c0': c0, 'c1': c1, 'c2': c2}, pre=_arith_pre('c3'),
                                  name='arith4_%s_%s_%s_any' % (OPNAMES_ID[c0], OPNAMES_ID[c1], OPNAMES_ID[c2])))
        for c0 in range(11):
            obs.append(Ob(bits2, fixed={'c0': c0}, pre='0 <= c1 <= 10 and -2 <= x <= 2 and -2 <= a0 <= 2 and -2 <= a1 <= 2',
                          name='bits2_%s_any' % OPNAMES_ID[c0]))
    for sh in range(12):
        obs.append(Ob(nested_arg, fixed={'shape': sh}, pre='len(xs) <= 3', name='nested_arg_%d' % sh))
    obs.append(Ob(reeval_args, pre='0 <= kind <= 6 and 0 <= miss <= 2', name='reeval_args', timeout=150))
    obs.append(Ob(reeval_args, pre='0 <= kind <= 6 and 0 <= miss <= 2', twin='reeval_args', name='reeval_args'))
    for fop in range(-1, 4):
        obs.append(Ob(arg_order, fixed={'fop': fop}, pre='-1 <= farg <= 3 and 0 <= last <= 2', name='arg_order_f%s' % (fop if fop >= 0 else 'none')))
    for op in (ADD, SUB, MUL, FLOORDIV, MOD, AND, OR, XOR, POW, TRUEDIV, INV, NEG):
        obs.append(Ob(arith_containers, fixed={'op': op}, pre='0 <= lk <= %d and 0 <= rk <= %d and 0 <= a <= 2' % (N_OPERANDS - 1, N_OPERANDS - 1),
                      name='arith_containers_%s' % OPNAMES_ID[op], timeout=None if tier == 'quick' else 900))
    for c0 in range(N_STEP_KINDS):
        obs.append(Ob(access2, fixed={'c0': c0}, pre='0 <= c1 < %d and len(xs) <= 3' % N_STEP_KINDS,
                      name='access2_%d_any' % c0))
    if tier == 'thorough':
        for c0 in range(N_STEP_KINDS):
            for c1 in range(N_STEP_KINDS):
                obs.append(Ob(access3, fixed={'c0': c0, 'c1': c1}, pre='0 <= c2 < %d and len(xs) <= 4' % N_STEP_KINDS,
                              name='access3_%d_%d_any' % (c0, c1)))
    obs.append(Ob(slice_full, pre='len(xs) <= 4', name='slice_full'))
    for pos in range(4):
        obs.append(Ob(literal_args, fixed={'pos': pos}, pre='0 <= kind <= 11 and 0 <= x <= 1 and 2 <= y <= 3', name='literal_args_pos%d' % pos))
    for op in (ADD, MUL, FLOORDIV, MOD, TRUEDIV, OR):
        obs.append(Ob(build_twice, fixed={'op': op}, pre='0 <= k1 <= 4 and 0 <= k2 <= 4 and -2 <= x <= 2', name='build_twice_%s' % OPNAMES_ID[op]))
    for w in range(6):
        obs.append(Ob(method_call, fixed={'which': w}, pre='len(xs) <= 3', name='method_call_%d' % w))
    # vacuity twins
    obs.append(Ob(arith2, fixed={'c0': MOD}, pre=_arith_pre('c1'), twin='fails', name='arith2_mod'))
    obs.append(Ob(arith2, fixed={'c0': MOD}, pre=_arith_pre('c1'), twin='value', name='arith2_mod'))
    obs.append(Ob(nested_arg, fixed={'shape': 2}, pre='len(xs) <= 3', twin='nested_fails', name='nested_arg_2'))
    obs.append(Ob(nested_arg, fixed={'shape': 8}, pre='len(xs) <= 3', twin='nested_value', name='nested_arg_8'))
    obs.append(Ob(access2, fixed={'c0': 7}, pre='0 <= c1 < %d and len(xs) <= 3' % N_STEP_KINDS, twin='access_fails',
                  name='access2_7'))
    obs.append(Ob(access2, fixed={'c0': 7}, pre='0 <= c1 < %d and len(xs) <= 3' % N_STEP_KINDS, twin='access_value',
                  name='access2_7'))
    obs.append(Ob(slice_full, pre='len(xs) <= 4', twin='slice', name='slice_full'))
    obs.append(Ob(arg_order, fixed={'fop': 1}, pre='-1 <= farg <= 3 and 0 <= last <= 2', twin='arg_order_fails', name='arg_order_f1'))
    obs.append(Ob(arg_order, fixed={'fop': -1}, pre='-1 <= farg <= 3 and 0 <= last <= 2', twin='arg_order_value', name='arg_order_fnone'))
    obs.append(Ob(arith_containers, fixed={'op': ADD}, pre='0 <= lk <= %d and 0 <= rk <= %d and 0 <= a <= 2' % (N_OPERANDS - 1, N_OPERANDS - 1), twin='arith_containers', name='arith_containers_add'))
    obs.append(Ob(literal_args, fixed={'pos': 0}, pre='0 <= kind <= 11 and 0 <= x <= 1 and 2 <= y <= 3', twin='literal_arg', name='literal_args_pos0'))
    obs.append(Ob(literal_args, fixed={'pos': 1}, pre='0 <= kind <= 11 and 0 <= x <= 1 and 2 <= y <= 3', twin='literal_index', name='literal_args_pos1'))
    obs.append(Ob(build_twice, fixed={'op': MUL}, pre='0 <= k1 <= 4 and 0 <= k2 <= 4 and -2 <= x <= 2', twin='build_twice', name='build_twice_mul'))
    return obs
