"""C09 -- Match succeeds exactly on conforming targets and returns them unchanged."""
import copy
import re
from typing import List

from glom import glom, Match, M, And, Or, Not, Optional, Required, Regex, MatchError, TypeMatchError, GlomError, T
from glom.matching import _MISSING as MM

from vkit.common import start, reach, fail, known_open, concretize, OUT, run
from vkit.ob import Ob
import vkit.stubs  # noqa: F401

META = {
    'explanation': 'Patterns (atoms: literals, types, M comparisons with symbolic bounds, predicate, Regex; composites: list, '
                   'tuple, set, And/Or/Not, dicts with literal/type/Optional(+default)/Required keys; depth <= 2) and '
                   'targets with symbolic numeric leaves are built from decision variables; the real Match is compared '
                   'with a recursive conforms() reference: verdict, result value (target plus Optional defaults), '
                   'MatchError vs TypeMatchError-and-TypeError, agreement of matches()/verify()/Match(default=), target '
                   'unchanged.',
    'bounds': {
        'quick': {'pattern depth': '<= 2 (depth 2: one composite child)', 'atoms': '10', 'composite kinds': '13',
                  'targets': '22 shapes with unbounded symbolic int leaves and M bound', 'dict keys': "{'k','o','z',1}",
                  'regex': "fixed pattern 'a+', subjects from {'a','aa','b'}"},
        'thorough': {'pattern depth': '<= 2 (both children composite from a 6-kind subset)'},
    },
    'stubs': ['S3 glom_debug=True', 'S4 state reset'],
    'outside_claim': ['regular expressions over symbolic subjects', 'incomparable M operands', 'patterns deeper than 2',
                      'string keys outside the alphabet'],
    'assumptions': ['TypeMatchError flag: the deciding rule is the last alternative tried at the innermost failing '
                    'position (convention validated against the tree in the design phase)'],
}


class Reject(Exception):
    def __init__(self, is_type=False):
        self.is_type = is_type


class Ref:
    """an M / Regex atom together with its reference predicate"""
    def __init__(self, real, fn):
        self.real, self.fn = real, fn

    def check(self, t):
        if self.fn(t):
            return t
        raise Reject()


def conforms(p, t):
    """expected result of Match(p) on t; raises Reject(is_type)"""
    if type(p) is And:
        r = t
        for c in p.children:
            r = conforms(c, t)
        return r
    if type(p) is Or:
        last = None
        for c in p.children:
            try:
                return conforms(c, t)
            except Reject as e:
                last = e
        raise last
    if type(p) is Not:
        try:
            conforms(p.child, t)
        except Reject:
            return t
        raise Reject()
    if type(p) is Ref:
        return p.check(t)
    if isinstance(p, type):
        if not isinstance(t, p):
            raise Reject(True)
        return t
    if isinstance(p, dict):
        if not isinstance(t, dict):
            raise Reject(True)
        required = []
        for k in p:
            if type(k) is Required:
                required.append(k)
            elif type(k) is not Optional and not isinstance(k, type) and type(k) is not Ref:
                required.append(k)
        result = {}
        for key, val in t.items():
            matched = False
            for sk in p:
                skk = sk.key if type(sk) is Required else sk
                try:
                    if type(sk) is Optional:
                        if key != sk.key:
                            raise Reject()
                        k2 = key
                    else:
                        k2 = conforms(skk, key)
                except Reject:
                    continue
                result[k2] = conforms(p[sk], val)
                if sk in required:
                    required.remove(sk)
                matched = True
                break
            if not matched:
                raise Reject()
        for sk in p:
            if type(sk) is Optional and sk.default is not MM and sk.key not in result:
                result[sk.key] = sk.default
        if required:
            raise Reject()
        return result
    if isinstance(p, (list, set, frozenset)):
        if not isinstance(t, type(p)):
            raise Reject(True)
        out = []
        for item in t:
            last = None
            done = False
            for c in p:
                try:
                    out.append(conforms(c, item))
                    done = True
                    break
                except Reject as e:
                    last = e
            if not done:
                raise last if last is not None else Reject()
        return out if type(p) is list else type(p)(out)
    if isinstance(p, tuple):
        if not isinstance(t, tuple):
            raise Reject(True)
        if len(p) != len(t):
            raise Reject()
        return tuple(conforms(a, b) for a, b in zip(p, t))
    if callable(p):
        try:
            ok = p(t)
        except Exception:
            raise Reject()
        if ok:
            return t
        raise Reject()
    if t != p:
        raise Reject()
    return t


def real(p):
    """the pattern handed to glom: Ref wrappers replaced by the real M / Regex objects"""
    if type(p) is Ref:
        return p.real
    if type(p) is And:
        return And(*[real(c) for c in p.children])
    if type(p) is Or:
        return Or(*[real(c) for c in p.children])
    if type(p) is Not:
        return Not(real(p.child))
    if isinstance(p, dict):
        out = {}
        for k, v in p.items():
            if type(k) is Required:
                out[Required(real(k.key))] = real(v)
            else:
                out[real(k) if type(k) is Ref else k] = real(v)
        return out
    if type(p) is list:
        return [real(c) for c in p]
    if type(p) is tuple:
        return tuple(real(c) for c in p)
    if type(p) in (set, frozenset):
        return type(p)(real(c) for c in p)
    return p


def is_even(x):
    return x % 2 == 0


def inv_pred(x):
    """predicate that raises ZeroDivisionError / IndexError / KeyError on right-typed near misses"""
    if isinstance(x, (int, float)) and not isinstance(x, bool):
        return 10 // x > 0
    if isinstance(x, str):
        return x[1] == 'a'
    if isinstance(x, dict):
        return x['k'] is not None
    return bool(x)


NATOM = 11


def atom(k, lo):
    if k == 0:
        return 1
    if k == 1:
        return 'a'
    if k == 2:
        return int
    if k == 3:
        return str
    if k == 4:
        return object
    if k == 5:
        return Ref(M > lo, lambda t: t > lo)
    if k == 6:
        return is_even
    if k == 7:
        return Ref(Regex('a+'), lambda t: type(t) is str and re.fullmatch('a+', t) is not None)
    if k == 8:
        return None
    if k == 10:
        return inv_pred
    return bool


NCOMP = 17


def composite(k, a, b):
    if k == 0:
        return [a]
    if k == 1:
        return [a, b]
    if k == 2:
        return (a, b)
    if k == 3:
        return And(a, b)
    if k == 4:
        return Or(a, b)
    if k == 5:
        return Not(a)
    if k == 6:
        return {'k': a, Optional('o', default=5): b}
    if k == 7:
        return {str: a, 'k': b}
    if k == 8:
        return {Required(int): a, str: b}
    if k == 9:
        return {'k': a, Optional('o'): b}
    if k == 10:
        return {a} if _hashable_atom(a) else None
    if k == 11:
        return frozenset([a, b]) if _hashable_atom(a) and _hashable_atom(b) else None
    if k == 12:
        return {Optional('k', default=[]): [a], object: b}
    if k == 13:
        return []                      # empty patterns: only an empty container of that very type conforms
    if k == 14:
        return set()
    if k == 15:
        return ()
    return {Optional('d', default={}): dict, 'k': a}


def _hashable_atom(a):
    return type(a) is not Ref and a is not is_even and a is not inv_pred


NTGT = 26


def target(k, x, y):
    if k == 0:
        return x
    if k == 1:
        return 'a'
    if k == 2:
        return 'aa'
    if k == 3:
        return 'b'
    if k == 4:
        return None
    if k == 5:
        return []
    if k == 6:
        return [x]
    if k == 7:
        return [x, 'a']
    if k == 8:
        return ['a', y, 'aa']
    if k == 9:
        return (x, 'a')
    if k == 10:
        return (x,)
    if k == 11:
        return {}
    if k == 12:
        return {'k': x}
    if k == 13:
        return {'k': 'a', 'o': y}
    if k == 14:
        return {'k': x, 'z': 'a'}
    if k == 15:
        return {1: y, 'k': 'a'}
    if k == 16:
        return {'o': x}
    if k == 17:
        return x > y
    if k == 18:
        return {1}
    if k == 19:
        return frozenset(['a', 1])
    if k == 20:
        return {'k': [x, y]}
    if k == 21:
        return {'k': {'k': x}}
    if k == 22:
        return ()
    if k == 23:
        return set()
    if k == 24:
        return ''
    return 0


def _snapshot(t):
    return copy.deepcopy(t) if isinstance(t, (list, dict, set)) else t


def _check(p, t):
    if p is None and False:
        return True
    rp = real(p)
    snap = _snapshot(t)
    try:
        exp = ('ok', conforms(p, t))
    except Reject as e:
        exp = ('rej', e.is_type)
    except TypeError:
        # incomparable M operands: WHICH error rejects is outside the claim -- but matches() and verify() still have to agree
        # with each other: verify() raising means matches() returns False (it never raises itself)
        spec = Match(rp)
        v = run(lambda: spec.verify(t))
        m = run(lambda: spec.matches(t))
        reach('incomparable')
        if v.kind == 'ok':
            return (m.kind == 'ok' and m.value is True) or fail(why='verify() accepts but matches() does not return True', v=v, m=m)
        return (m.kind == 'ok' and m.value is False) or fail(why='verify() rejects but matches() does not return False', v=v, m=m, pattern=rp, t=t)
    spec = Match(rp)
    got = run(lambda: glom(t, spec, glom_debug=True))
    if isinstance(t, (list, dict, set)) and t != snap:
        return fail(why='target modified', t=t, snap=snap)
    if exp[0] == 'ok':
        reach('conforms')
        if got.kind != 'ok':
            return fail(why='should match', got=got, pattern=rp, t=t)
        if got.value != exp[1] or type(got.value) is not type(exp[1]):
            return fail(why='result differs', got=got.value, exp=exp[1], pattern=rp, t=t)
        if isinstance(exp[1], dict) and len(exp[1]) > (len(t) if isinstance(t, dict) else 0):
            reach('default_filled')
        if spec.matches(t) is not True:
            return fail(why='matches() disagrees', pattern=rp, t=t)
        if isinstance(got.value, dict):
            # a caller may edit what it got back (e.g. the list/dict an Optional default produced); the next evaluation of the
            # same Match object must start from the pattern again
            for v in got.value.values():
                if type(v) is list:
                    v.append('edited-by-caller')
                elif type(v) is dict:
                    v['edited-by-caller'] = 1
            again = run(lambda: glom(t, spec, glom_debug=True))
            if again.kind != 'ok' or again.value != exp[1]:
                if not any(v is tv for v in got.value.values() for tv in (t.values() if isinstance(t, dict) else [])):
                    return fail(why='second evaluation of the same Match object differs', again=again, exp=exp[1])
        if spec.verify(t) != exp[1]:
            return fail(why='verify() disagrees', pattern=rp, t=t)
        return True
    reach('rejects')
    if got.kind != 'err' or not isinstance(got.exc, MatchError):
        return fail(why='should reject with MatchError', got=got, pattern=rp, t=t)
    flag = isinstance(got.exc, TypeMatchError) and isinstance(got.exc, TypeError)
    if flag != exp[1]:
        return fail(why='TypeMatchError flag', flag=flag, exp=exp[1], pattern=rp, t=t, got=got)
    if flag:
        reach('type_reject')
    if spec.matches(t) is not False:
        return fail(why='matches() disagrees', pattern=rp, t=t)
    try:
        spec.verify(t)
        return fail(why='verify() should raise', pattern=rp, t=t)
    except MatchError:
        pass
    d = glom(t, Match(rp, default='DFLT'), glom_debug=True)
    return d == 'DFLT' or fail(why='Match(default=) should return the default', d=d)


def match_atom(a: int, tk: int, x: int, y: int, lo: int) -> bool:
    start()
    return _check(atom(a, lo), target(tk, x, y))


def match1(c: int, a: int, b: int, tk: int, x: int, y: int, lo: int) -> bool:
    """composite over two atoms"""
    start()
    p = composite(c, atom(a, lo), atom(b, lo + 1))
    if p is None:
        return True
    return _check(p, target(tk, x, y))


def match_reuse(c: int, a: int, b: int, tk1: int, tk2: int, x: int, y: int, lo: int) -> bool:
    """ONE Match spec object evaluated on two targets in succession: each verdict is that of a fresh pattern"""
    start()
    p = composite(c, atom(a, lo), atom(b, lo + 1))
    if p is None:
        return True
    spec = Match(real(p))
    for tk in (tk1, tk2):
        t = target(tk, x, y)
        try:
            exp = ('ok', conforms(p, t))
        except Reject as e:
            exp = ('rej', e.is_type)
        except TypeError:
            return True
        got = run(lambda: glom(t, spec, glom_debug=True))
        if exp[0] == 'ok':
            if got.kind != 'ok' or got.value != exp[1]:
                return fail(why='re-used Match spec: should match', got=got, exp=exp, t=t)
        elif got.kind != 'err' or not isinstance(got.exc, MatchError):
            return fail(why='re-used Match spec: should reject', got=got, t=t)
    reach('reuse')
    return True


def match2(c: int, d: int, a: int, b: int, e: int, tk: int, x: int, y: int, lo: int) -> bool:
    """composite c over (composite d over atoms a, b) and atom e"""
    start()
    inner = composite(d, atom(a, lo), atom(b, lo + 1))
    if inner is None:
        return True
    if c in (10, 11) and not isinstance(inner, (tuple, frozenset)):
        return True                  # set members must be hashable
    p = composite(c, inner, atom(e, lo))
    if p is None:
        return True
    return _check(p, target(tk, x, y))


def match2b(c: int, d: int, f: int, a: int, b: int, tk: int, x: int, y: int, lo: int) -> bool:
    """composite c over two composites (thorough)"""
    start()
    i1 = composite(d, atom(a, lo), atom(b, lo + 1))
    i2 = composite(f, atom(b, lo), atom(a, lo - 1))
    if i1 is None or i2 is None or c in (10, 11):
        return True
    p = composite(c, i1, i2)
    return _check(p, target(tk, x, y))


def obligations(tier):
    q = tier == 'quick'
    obs = []
    for a in range(NATOM):
        obs.append(Ob(match_atom, fixed={'a': a}, pre='0 <= tk < %d' % NTGT, name='match_atom_%d' % a))
    for c in range(NCOMP):
        for a in range(NATOM):
            if q and c in (1, 2, 3, 4, 11) and a in (4, 8, 9):
                continue
            bpre = '(b == 0 or b == 2 or b == 3 or b == 5 or b == 7)' if q else '0 <= b < %d' % NATOM
            obs.append(Ob(match1, fixed={'c': c, 'a': a}, pre='%s and 0 <= tk < %d' % (bpre, NTGT),
                          name='match1_c%d_a%d' % (c, a), timeout=120))
    for c in (1, 4, 6, 7, 8, 12):
        obs.append(Ob(match_reuse, fixed={'c': c, 'a': 2, 'b': 3}, pre='(tk1 == 7 or tk1 == 12 or tk1 == 13 or tk1 == 15) and (tk2 == 6 or tk2 == 11 or tk2 == 12 or tk2 == 14)',
                      name='match_reuse_c%d' % c, timeout=120))
    deep_t = [6, 7, 9, 12, 13, 14, 15, 20, 21, 11]
    tpre = '(' + ' or '.join('tk == %d' % t for t in deep_t) + ')'
    if q:
        for c in (0, 4, 5, 6, 8):
            for d in (1, 4, 6):
                obs.append(Ob(match2, fixed={'c': c, 'd': d, 'e': 3}, pre='(a == 2 or a == 5 or a == 1) and (b == 3 or b == 0) and ' + tpre,
                              name='match2_c%d_d%d' % (c, d), timeout=120))
        # an outer dict pattern WITHOUT defaults of its own around an inner one that fills a default in: the filled-in copy
        # belongs to the result, the caller's (nested) target stays as it was
        for c in (7, 9):
            for d in (6, 16):
                obs.append(Ob(match2, fixed={'c': c, 'd': d}, pre='(a == 2 or a == 4) and (b == 3 or b == 2) and (e == 3 or e == 4) and (tk == 21 or tk == 12 or tk == 13 or tk == 20)',
                              name='match2_c%d_d%d' % (c, d), timeout=120))
    else:
        for c in range(NCOMP):
            for d in range(NCOMP):
                for e in (3,):           # sized: 17 x 17 pairs of composites, every atom below, one atom beside
                    obs.append(Ob(match2, fixed={'c': c, 'd': d, 'e': e}, pre='0 <= a < %d and (b == 3 or b == 0 or b == 5) and ' % NATOM + tpre,
                                  name='match2_c%d_d%d_e%d' % (c, d, e)))
        for c in (0, 1, 2, 3, 4, 6, 7):
            for d in (0, 2, 4, 5, 6, 8):
                for f in (0, 2, 4, 5, 6, 8):
                    obs.append(Ob(match2b, fixed={'c': c, 'd': d, 'f': f}, pre='(a == 2 or a == 5 or a == 1) and (b == 3 or b == 0) and ' + tpre,
                                  name='match2b_c%d_d%d_f%d' % (c, d, f)))
    obs.append(Ob(match_atom, fixed={'a': 5}, pre='0 <= tk < %d' % NTGT, twin='conforms', name='match_atom_5'))
    obs.append(Ob(match_atom, fixed={'a': 5}, pre='0 <= tk < %d' % NTGT, twin='rejects', name='match_atom_5'))
    obs.append(Ob(match_atom, fixed={'a': 5}, pre='0 <= tk < %d' % NTGT, twin='incomparable', name='match_atom_5'))
    obs.append(Ob(match1, fixed={'c': 6, 'a': 2}, pre='0 <= b < %d and 0 <= tk < %d' % (NATOM, NTGT), twin='default_filled', name='match1_c6_a2'))
    obs.append(Ob(match1, fixed={'c': 6, 'a': 2}, pre='0 <= b < %d and 0 <= tk < %d' % (NATOM, NTGT), twin='type_reject', name='match1_c6_a2'))
    obs.append(Ob(match2, fixed={'c': 6, 'd': 1, 'e': 3}, pre='(a == 2 or a == 5 or a == 1) and (b == 3 or b == 0) and ' + tpre, twin='conforms', name='match2_c6_d1'))
    return obs
