"""Development aid: markdown table of the last quick / thorough run of every property from evidence/tiers/*.json."""
import json
import os

VERIF = os.path.dirname(os.path.dirname(os.path.abspath(__file__)))


def main():
    print('| | tier | obligations | discharged | inconclusive | twins | paths closed | solver queries | solver s | wall s |')
    print('|--|--|--|--|--|--|--|--|--|--|')
    for i in range(1, 21):
        pid = 'C%02d' % i
        for tier in ('quick', 'thorough'):
            p = os.path.join(VERIF, 'evidence', 'tiers', '%s-%s.json' % (pid, tier))
            if not os.path.exists(p):
                continue
            e = json.load(open(p))
            c = e['coverage']
            print('| %s | %s | %d | %d | %d | %d/%d | %d | %d | %s | %s |' % (
                pid, tier, c['obligations'], c['discharged'], c['inconclusive'], c['vacuity_twins_refuted_and_replayed'],
                c['vacuity_twins'], c['paths'], c['solver_queries'], c['solver_time_s'], e['wall_s']))


if __name__ == '__main__':
    main()
