"""Development aid: print the markdown table of kept seeded changes (DESIGN.md section 11) from seeded/*/meta.json."""
import glob
import json
import os

VERIF = os.path.dirname(os.path.dirname(os.path.abspath(__file__)))


def main():
    rows = []
    for d in sorted(glob.glob(os.path.join(VERIF, 'seeded', '*'))):
        mp = os.path.join(d, 'meta.json')
        if not os.path.exists(mp):
            continue
        m = json.load(open(mp))
        c = m.get('check_result_with_change') or {}
        first = ''
        for v in c.get('first', [])[:1]:
            first = v.split('/')[-1].split('-')[1] if '-' in v else v
        rows.append((os.path.basename(d), m.get('needs_to_manifest', ''), m.get('caught_by', ''),
                     m.get('caught_by_the_check_as_first_built', ''), c.get('violations', '?'), first))
    print('| change | needs, to manifest | caught by (obligation family) | as first built | violations reported |')
    print('|--|--|--|--|--|')
    for r in rows:
        print('| `%s` | %s | %s | %s | %s |' % (r[0], r[1].replace('|', '/'), r[2].replace('|', '/'), r[3].replace('|', '/'), r[4]))
    n = len(rows)
    first = len([r for r in rows if str(r[3]).startswith('yes')])
    unrec = len([r for r in rows if str(r[3]).startswith('not recorded')])
    print()
    print('%d changes kept; %d were reported by the check as first built, %d only after the check was strengthened, for %d (round 2) '
          'the state of the check at the time was not recorded separately. Every one of them is reported by the check as committed.'
          % (n, first, n - first - unrec, unrec))


if __name__ == '__main__':
    main()
