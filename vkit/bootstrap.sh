#!/bin/bash
# Creates /verif/.venv = /venv's python 3.12 + an overlay .pth (repo deps from /venv, glom from /repo
# as *source*) + crosshair-tool from the offline wheelhouse.  Idempotent; offline.
set -e
V="$(cd "$(dirname "$0")/.." && pwd)/.venv"
if [ -x "$V/bin/python" ] && "$V/bin/python" -c "import crosshair, z3, glom, boltons, face" 2>/dev/null; then
  exit 0
fi
rm -rf "$V"
/venv/bin/python -m venv "$V"
SP=$("$V/bin/python" -c "import sysconfig; print(sysconfig.get_paths()['purelib'])")
printf '/venv/lib/python3.12/site-packages\n/repo\n' > "$SP/overlay.pth"
PIP_NO_INDEX=1 "$V/bin/pip" install -q --no-index --find-links /opt/veriftools/wheels crosshair-tool >/dev/null
"$V/bin/python" -c "import crosshair, z3, glom, boltons, face; print('vkit venv ready:', crosshair.__version__ if hasattr(crosshair,'__version__') else 'crosshair', z3.get_version_string())"
