"""Development aid: file a confirmed seeded change under /verif/seeded/<property>-<X>/.

  python3 vkit/keepseed.py <property> <X> <source dir> '<needs>' '<caught_by>' '<originally>'

Copies patchX.diff -> patch.diff, demoX.py -> demo.py, notesX.md -> notes.md and writes meta.json from the triage result
(resultX.json, produced by vkit/seedtest.py) plus the given free-text fields.
"""
import json
import os
import shutil
import sys

VERIF = os.path.dirname(os.path.dirname(os.path.abspath(__file__)))


def main():
    pid, x, src, needs, caught_by, originally = sys.argv[1:7]
    dst = os.path.join(VERIF, 'seeded', '%s-%s' % (pid, x))
    os.makedirs(dst, exist_ok=True)
    shutil.copy(os.path.join(src, 'patch%s.diff' % x), os.path.join(dst, 'patch.diff'))
    shutil.copy(os.path.join(src, 'demo%s.py' % x), os.path.join(dst, 'demo.py'))
    if os.path.exists(os.path.join(src, 'notes%s.md' % x)):
        shutil.copy(os.path.join(src, 'notes%s.md' % x), os.path.join(dst, 'notes.md'))
    res = {}
    rp = os.path.join(src, 'final%s.json' % x)
    if not os.path.exists(rp):
        rp = os.path.join(src, 'result%s.json' % x)
    if os.path.exists(rp):
        try:
            res = json.load(open(rp))
        except Exception:
            res = {}
    meta = {
        'property': pid,
        'breaks': 'see notes.md (written by the sub-agent that produced the change, which saw only the property text)',
        'needs_to_manifest': needs,
        'suite_still_passes_with_change': res.get('suite_ok'),
        'demo_passes_without_change': res.get('demo_passes_on_original'),
        'demo_fails_with_change': res.get('demo_fails_with_patch'),
        'what_i_ran': 'python3 vkit/seedtest.py %s patch.diff demo.py%s  (git apply in %s, pinned pytest suite, demo.py, ./check %s --tier quick%s, '
                      'git checkout -- ., demo.py again)' % (pid, ''.join(' --only ' + o for o in res.get('only', [])), res.get('repo', '/repo'), pid,
                                                            ''.join(' --only ' + o for o in res.get('only', []))),
        'check_result_with_change': res.get('checks', {}).get(pid),
        'caught_by': caught_by,
        'caught_by_the_check_as_first_built': originally,
    }
    with open(os.path.join(dst, 'meta.json'), 'w') as f:
        json.dump(meta, f, indent=1)
    print('kept', dst)


if __name__ == '__main__':
    main()
