"""Helpers shared by all obligation templates."""
import json
import os

VERIF = os.path.dirname(os.path.dirname(os.path.abspath(__file__)))

# ---- vacuity guard: reachability regions --------------------------------------------------------
REACHED = set()


def reach(region):
    """Mark that the comparison point of a designated region was reached on this path."""
    REACHED.add(region)


def start():
    """Top of every obligation template: clear the vacuity markers and reset glom's state (S4)."""
    from vkit.stubs import reset_glom_state
    REACHED.clear()
    DETAIL.clear()
    reset_glom_state()


# ---- known findings -----------------------------------------------------------------------------
def _load_known():
    try:
        with open(os.path.join(VERIF, 'known_findings.json')) as f:
            data = json.load(f)
    except Exception:
        return []
    return data.get('findings', [])


KNOWN = _load_known()
OPEN_PREDICATES = {k['predicate'] for k in KNOWN if isinstance(k, dict) and k.get('status') == 'open'}


def known_open(predicate_name):
    if os.environ.get('VKIT_IGNORE_KNOWN') == '1':
        return False
    return predicate_name in OPEN_PREDICATES


# ---- diagnostics for replays --------------------------------------------------------------------
DETAIL = {}


def fail(**detail):
    """Record what disagreed (shown by ./check replay) and return False."""
    if os.environ.get('VKIT_ENGINE') == '1':
        if os.environ.get('VKIT_DEBUG_FAIL'):          # development aid: which comparison failed inside the engine
            import sys
            sys.stderr.write('ENGINE-FAIL %r\n' % (sorted(detail.items(), key=lambda kv: kv[0]),))
        return False
    DETAIL.clear()
    for k, v in detail.items():
        try:
            DETAIL[k] = repr(v)[:600]
        except Exception:
            DETAIL[k] = '<unrepr-able>'
    return False


# ---- outcome comparison -------------------------------------------------------------------------
class Outcome:
    __slots__ = ('kind', 'value', 'exc')

    def __init__(self, kind, value=None, exc=None):
        self.kind, self.value, self.exc = kind, value, exc

    def __repr__(self):
        if self.kind == 'ok':
            return 'ok(%r)' % (self.value,)
        return 'err(%s: %s)' % (type(self.exc).__name__, self.exc.args if self.exc is not None else '')


def run(thunk):
    """Run a thunk; only `Exception` is caught (CrossHair's path-steering exceptions are
    BaseExceptions and must pass through)."""
    try:
        return Outcome('ok', thunk())
    except Exception as e:
        if type(e).__name__ == 'NotDeterministic':       # engine artefact: never part of an outcome
            raise
        return Outcome('err', exc=e)


class _Out:
    def __repr__(self):
        return 'OUT'


OUT = _Out()


def concretize(v, lo, hi):
    """Finite-domain (D) variable: let the solver choose the value through a comparison chain and
    continue with the concrete int.  Used before values reach C code (tuple slicing, hashing,
    repr/eval, pickle, floats, bitwise ops), where the engine would realise them anyway but with
    duplicated paths.  None passes through; a value outside [lo, hi] returns OUT (note that
    type(symbolic_int) is int under the engine, so callers must test `is OUT`)."""
    if v is None:
        return None
    for c in range(lo, hi + 1):
        if v == c:
            return c
    return OUT


def limited(thunk, extra=400):
    """run thunk with the recursion limit lowered to (current depth + extra): a runaway recursion ends quickly as a
    RecursionError instead of crawling through a thousand traced frames"""
    import sys
    depth = 0
    f = sys._getframe()
    while f is not None:
        depth += 1
        f = f.f_back
    old = sys.getrecursionlimit()
    sys.setrecursionlimit(min(old, depth + extra))
    try:
        return thunk()
    finally:
        sys.setrecursionlimit(old)
