"""Regenerates MANIFEST.json from the harness modules present (python3 vkit/mkmanifest.py)."""
import importlib
import json
import os
import sys

VERIF = os.path.dirname(os.path.dirname(os.path.abspath(__file__)))
sys.path.insert(0, VERIF)
PENDING_REASON = 'check under construction in this session (solver-based obligation family designed in DESIGN.md section 5, not yet registered)'
NA = {}

TITLES = {}
for line in open(os.path.join(VERIF, 'properties.jsonl')):
    p = json.loads(line)
    TITLES[p['id']] = p['title']

checks, na = [], []
for pid in sorted(TITLES):
    path = os.path.join(VERIF, 'harness', pid + '.py')
    if not os.path.exists(path):
        na.append({'property_id': pid, 'reason': NA.get(pid, PENDING_REASON)})
        continue
    src = open(path).read()
    meta = {}
    # META is a literal dict at module level; import lazily is heavy (needs glom), so exec only that assignment
    try:
        import ast
        tree = ast.parse(src)
        for node in tree.body:
            if isinstance(node, ast.Assign) and getattr(node.targets[0], 'id', None) == 'META':
                meta = ast.literal_eval(node.value)
    except Exception as e:
        print('warning: META of %s not literal: %s' % (pid, e))
    checks.append({
        'property_id': pid,
        'quick_cmd': './check %s --tier quick' % pid,
        'thorough_cmd': './check %s --tier thorough' % pid,
        'evidence_file': '/verif/evidence/%s.json' % pid,
        'replay_cmd_template': './check replay {path}',
        'engine': 'crosshair',
        'level_claimed': {
            'category': 'other',
            'text': 'Bounded symbolic execution of the real glom functions (CrossHair + z3): every obligation is a solver-closed '
                    'claim "for this sub-family of specs/targets, for all data within the stated bounds, glom agrees with the '
                    'reference semantics written from the property statement". Confirmed only when the whole path tree closes; '
                    'a bound is stated for every input, so this is neither a proof nor sampling. ' + meta.get('level', ''),
            'design_ref': 'DESIGN.md section 5, %s' % pid,
        },
        'level_note': 'Trusted: CPython 3.12, CrossHair 0.0.110 models of int/bool/list/dict/str, z3 5.1, engine config E1-E4, '
                      'stubs ' + '; '.join(meta.get('stubs', [])) + '; the reference model in harness/%s.py. Outside the claim: ' % pid
                      + '; '.join(meta.get('outside_claim', [])) + '.',
        'technique': 'solver-based: bounded symbolic execution of the real code (CrossHair 0.0.110 / z3), counterexamples replayed concretely',
    })

manifest = {
    'version': 1,
    'setup_cmd': './vkit/bootstrap.sh',
    'hooks': {
        'guard': 'MAHMOUD_GLOM_VERIF',
        'enable': 'no source hooks are needed: stubs S2-S4 and the engine configuration E1-E5 are applied inside the checking process only (DESIGN.md 1.2, 2.7); /repo carries no instrumentation',
        'baseline_off_cmd': 'cd /repo && /venv/bin/python -m pytest -ra -q -p no:cacheprovider --timeout=900 --continue-on-collection-errors',
        'source_commits': [],
        'add_only': True,
    },
    'engines': [{'name': 'crosshair', 'path': '/verif/vkit', 'serves_properties': [c['property_id'] for c in checks],
                 'kind_free_text': 'CrossHair 0.0.110 symbolic execution of /repo glom source with z3 5.1; one OS process per obligation; driver vkit/driver.py'}],
    'checks': checks,
    'not_applicable': na,
    'notes': 'Exit codes: 0 held on everything explored (inconclusive obligations are counted in evidence, never as success of the '
             'obligation), 1 VIOLATION (replayed concretely), 2 harness error (non-reproducing counterexample or vacuous family).',
}
with open(os.path.join(VERIF, 'MANIFEST.json'), 'w') as f:
    json.dump(manifest, f, indent=1)
print('MANIFEST: %d checks, %d not_applicable' % (len(checks), len(na)))
