"""Engine configuration E1-E4 for CrossHair 0.0.110 (DESIGN.md section 1.2).

Tooling-side only: nothing here touches glom.  Imported by vkit.worker before any obligation
module is loaded.
"""
import builtins
import time

import crosshair.core as cc
import crosshair.core_and_libs  # noqa: F401  (loads the builtin patches)
from crosshair.core import CrossHairValue
from crosshair.tracers import NoTracing

# ---- E1: never opportunistically replace a body by an uninterpreted result -------------------
_orig_consider = cc.consider_shortcircuit


def _consider(fn, sig, bound, subconditions, allow_interpretation=True):
    if allow_interpretation:
        return None
    return _orig_consider(fn, sig, bound, subconditions, allow_interpretation=allow_interpretation)


cc.consider_shortcircuit = _consider

# ---- E2: format() must not deep-copy exceptions (scope dicts are keyed by the T singleton) ---
_orig_format = cc._PATCH_REGISTRATIONS[format]


def _format(obj, format_spec=""):
    if isinstance(obj, BaseException):
        return type(obj).__format__(obj, format_spec)
    return _orig_format(obj, format_spec)


cc._PATCH_REGISTRATIONS[format] = _format

# ---- E4: isinstance on non-symbolic objects is CPython's isinstance --------------------------
_orig_isinstance = cc._PATCH_REGISTRATIONS[isinstance]
_real_isinstance = builtins.isinstance
import abc as _abc
_STD_META = (type, _abc.ABCMeta)


def _isinstance(obj, types):
    with NoTracing():
        symbolic = (_real_isinstance(obj, CrossHairValue) or _real_isinstance(types, CrossHairValue)
                    or type(obj).__module__.startswith('crosshair'))      # e.g. ShellMutableMap standing in for a dict
        if not symbolic and type(types) is tuple:
            for t in types:
                if _real_isinstance(t, CrossHairValue):
                    symbolic = True
                    break
    if symbolic:
        return _orig_isinstance(obj, types)
    with NoTracing():
        # classes with a standard metaclass: CPython's answer is exact and needs no tracing (tracing the ABC machinery
        # re-enters the engine's contract enforcement and recurses); custom metaclasses (glom's _ObjStyleKeysMeta, the
        # harness' virtual types whose hooks return symbolic booleans) must be traced so that bool() of the result forks
        std = type(types) in _STD_META or (type(types) is tuple and all(type(t) in _STD_META for t in types))
        if std:
            return _real_isinstance(obj, types)
    return _real_isinstance(obj, types)


cc._PATCH_REGISTRATIONS[isinstance] = _isinstance

# ---- E5: dict() of concrete arguments is a real dict ----------------------------------------------
# CrossHair models every dict() call as a ShellMutableMap (so that symbolic keys need not be hashed).
# glom stores such objects in __dict__ (ScopeVars) and passes them to unbound dict methods
# (Merge: dict.update(acc, v)), both of which CPython refuses for a non-dict.  When no argument is a
# symbolic proxy and no key is one, build the real dict; keys inserted later are realised by
# hashing, which is the documented (D) treatment of hashed values.
_orig_dict = cc._PATCH_REGISTRATIONS[dict]
_real_dict = builtins.dict
import collections as _collections
import collections.abc  # noqa: E402,F401


def _dict(*a, **kw):
    if len(a) > 1:
        return _orig_dict(*a, **kw)
    if not a:
        return _real_dict(**kw)
    arg = a[0]
    with NoTracing():
        symbolic = _real_isinstance(arg, CrossHairValue) or type(arg).__module__.startswith('crosshair')
        simple = type(arg) in (_real_dict, _collections.OrderedDict)
    if symbolic:
        return _orig_dict(arg, **kw)
    if simple:
        return _real_dict(arg, **kw)         # keys of a real dict are already concrete
    # any other concrete mapping / iterable of pairs (ChainMap, ItemsView -- Mapping.__eq__ does dict(self.items()) on glom
    # scopes, which refer to each other through UP / ROOT; CPython's dict comparison cuts such cycles by identity, the
    # engine's ShellMutableMap comparison does not): materialise once, use a real dict unless a key is symbolic
    if _real_isinstance(arg, _collections.abc.Mapping):
        pairs = [(k, arg[k]) for k in arg]
    else:
        pairs = list(arg)
    with NoTracing():
        ok = True
        for pair in pairs:
            if not (type(pair) in (list, tuple) and len(pair) == 2) or _real_isinstance(pair[0], CrossHairValue):
                ok = False
                break
    if ok:
        return _real_dict(pairs, **kw)
    return _orig_dict(pairs, **kw)


cc._PATCH_REGISTRATIONS[dict] = _dict

# ---- E3: solver accounting -------------------------------------------------------------------
import z3  # noqa: E402

SOLVER_STATS = {"queries": 0, "time_s": 0.0, "sat": 0, "unsat": 0, "unknown": 0}
_orig_check = z3.Solver.check


def _check(self, *a):
    t0 = time.perf_counter()
    r = _orig_check(self, *a)
    SOLVER_STATS["time_s"] += time.perf_counter() - t0
    SOLVER_STATS["queries"] += 1
    k = str(r)
    if k in SOLVER_STATS:
        SOLVER_STATS[k] += 1
    return r


z3.Solver.check = _check

# ---- counterexample capture: realised argument values, for concrete replay -------------------
LAST_COUNTEREXAMPLE = {}
from crosshair.condition_parser import Conditions  # noqa: E402

_orig_fmt_cex = Conditions.format_counterexample


def _fmt_cex(self, args, return_val, repr_overrides):
    try:
        LAST_COUNTEREXAMPLE.clear()
        LAST_COUNTEREXAMPLE.update(dict(args.arguments))
    except Exception:
        pass
    return _orig_fmt_cex(self, args, return_val, repr_overrides)


Conditions.format_counterexample = _fmt_cex
