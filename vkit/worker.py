"""One CrossHair analysis of one obligation function, in its own process.

usage: python -m vkit.worker <generated_module.py> <function> <per_condition_timeout> <per_path_timeout> <out.json>

Prints nothing on stdout except a final JSON line (also written to <out.json>).
"""
import collections
import importlib.util
import json
import os
import sys
import time
import traceback


def main():
    mod_path, fn_name, cond_to, path_to, out_path = sys.argv[1:6]
    os.environ['VKIT_ENGINE'] = '1'
    t0 = time.time()
    res = {'fn': fn_name, 'status': 'engine_error', 'paths': 0, 'messages': [], 'cex': None}
    try:
        import vkit.engine_plugin as ep
        import crosshair.statespace as ss
        seed = int(os.environ.get('VERIF_SEED', '0') or 0)
        if seed:
            import random
            ss.newrandom = lambda: random.Random(1801243388510242075 ^ seed)
        from crosshair.core import analyze_function, run_checkables
        from crosshair.options import AnalysisOptionSet, AnalysisKind
        from crosshair.statespace import MessageType

        spec = importlib.util.spec_from_file_location('vkit_obligations', mod_path)
        mod = importlib.util.module_from_spec(spec)
        sys.modules['vkit_obligations'] = mod
        spec.loader.exec_module(mod)
        fn = getattr(mod, fn_name)
        stats = collections.Counter()
        opts = AnalysisOptionSet(
            analysis_kind=[AnalysisKind.PEP316],
            per_condition_timeout=float(cond_to),
            per_path_timeout=float(path_to),
            report_all=True,
            stats=stats,
            max_uninteresting_iterations=sys.maxsize,
        )
        checkables = analyze_function(fn, opts)
        if not checkables:
            res['status'] = 'engine_error'
            res['messages'] = ['no conditions found']
        else:
            msgs = run_checkables(checkables)
            res['paths'] = stats.get('num_paths', 0)
            states = [m.state for m in msgs]
            res['messages'] = [{'state': m.state.name, 'message': m.message[:2000], 'tb': (m.traceback or '')[-1500:]} for m in msgs]
            if any('NotDeterministic' in (m.message or '') for m in msgs):
                res['status'] = 'engine_error'
            elif any(s in (MessageType.POST_FAIL, MessageType.EXEC_ERR, MessageType.POST_ERR) for s in states):
                res['status'] = 'refuted'
                cex = dict(ep.LAST_COUNTEREXAMPLE)
                try:
                    json.dumps(cex)
                    res['cex'] = cex
                except Exception:
                    res['cex'] = {k: repr(v) for k, v in cex.items()}
                    res['cex_unserialisable'] = True
            elif any(s == MessageType.PRE_UNSAT for s in states):
                res['status'] = 'pre_unsat'
            elif any(s == MessageType.SYNTAX_ERR or s == MessageType.IMPORT_ERR for s in states):
                res['status'] = 'engine_error'
            elif states and all(s == MessageType.CONFIRMED for s in states):
                res['status'] = 'confirmed'
            else:
                res['status'] = 'unknown'
        res['solver'] = dict(ep.SOLVER_STATS)
    except BaseException as e:  # engine crash: report, never a verdict
        res['status'] = 'engine_error'
        res['messages'].append(''.join(traceback.format_exception(type(e), e, e.__traceback__))[-3000:])
    res['wall_s'] = round(time.time() - t0, 3)
    res['cpu_s'] = round(time.process_time(), 3)
    txt = json.dumps(res)
    with open(out_path, 'w') as f:
        f.write(txt)
    print(txt)
    sys.stdout.flush()
    os._exit(0)


if __name__ == '__main__':
    main()
