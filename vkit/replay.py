"""Concrete replay of one obligation instance against the real, unstubbed code (no engine).

  python -m vkit.replay <replay.json>         -> prints REPLAY-VERDICT HOLDS|FAILS|RAISES|REACHED|NOT-REACHED
  python -m vkit.replay --profile <harness> <json {template: kwargs}>   -> PROFILE [glom functions entered]
"""
import importlib
import json
import os
import sys
import traceback


def _fix(v):
    # JSON turns tuples into lists and int dict keys into strings; templates only take JSON-friendly types
    return v


def main():
    if sys.argv[1] == '--profile':
        h = importlib.import_module(sys.argv[2])
        todo = json.loads(sys.argv[3])
        seen = set()

        def prof(frame, event, arg):
            if event == 'call':
                co = frame.f_code
                fn = co.co_filename
                if '/glom/' in fn and '/test/' not in fn:
                    seen.add('%s:%s' % (os.path.basename(fn)[:-3], co.co_qualname))
        for tname, kwargs in todo.items():
            sys.setprofile(prof)
            try:
                getattr(h, tname)(**kwargs)
            except BaseException:
                pass
            finally:
                sys.setprofile(None)
        print('PROFILE ' + json.dumps(sorted(seen)))
        return 0
    with open(sys.argv[1]) as f:
        body = json.load(f)
    for k, v in (body.get('env') or {}).items():
        os.environ.setdefault(k, v)
    h = importlib.import_module(body['harness'])
    from vkit import common
    fn = getattr(h, body['template'])
    print('replaying %s.%s(%s)' % (body['harness'], body['template'],
                                   ', '.join('%s=%r' % kv for kv in body['kwargs'].items())))
    try:
        r = fn(**body['kwargs'])
    except Exception:
        traceback.print_exc()
        print('detail:', common.DETAIL)
        print('REPLAY-VERDICT RAISES')
        return 1
    if body.get('twin'):
        ok = body['twin'] in common.REACHED
        print('REPLAY-VERDICT ' + ('REACHED' if ok else 'NOT-REACHED'))
        return 0
    if common.DETAIL:
        print('detail:', json.dumps(common.DETAIL, default=repr)[:3000])
    print('returned %r' % (r,))
    print('REPLAY-VERDICT ' + ('HOLDS' if r is True else 'FAILS'))
    return 0 if r is True else 1


if __name__ == '__main__':
    sys.exit(main())
