"""Development aid: evaluate one seeded change against the checks.

  python3 vkit/seedtest.py <property id> <patch.diff> <demo.py> [--tier quick] [--also C07,C03]

Applies the patch to /repo (git apply), confirms that the pinned suite still passes and that the demonstration fails,
runs ./check <id> (and any --also checks), reverts the patch (git checkout -- .), confirms the demonstration passes again.
Prints a JSON summary.  Never commits anything to /repo.
"""
import json
import os
import subprocess
import sys
import time


def sh(cmd, cwd=None, timeout=3600):
    p = subprocess.run(cmd, shell=True, cwd=cwd, capture_output=True, text=True, timeout=timeout)
    return p.returncode, p.stdout + p.stderr


def main():
    pid, patch, demo = sys.argv[1:4]
    tier = 'quick'
    also = []
    args = sys.argv[4:]
    for i, a in enumerate(args):
        if a == '--tier':
            tier = args[i + 1]
        if a == '--also':
            also = args[i + 1].split(',')
    only = []
    for i, a in enumerate(args):
        if a == '--only':
            only.append(args[i + 1])     # restrict the check to these obligation families (recorded in the result)
    repo = '/repo'
    for i, a in enumerate(args):
        if a == '--repo':
            repo = args[i + 1]           # triage in a scratch worktree (VKIT_REPO); the final confirmation uses /repo itself
    envp = ('VKIT_REPO=%s ' % repo) if repo != '/repo' else ''
    res = {'property': pid, 'patch': patch, 'repo': repo, 'only': only}
    rc, out = sh('git status --porcelain', cwd=repo)
    if out.strip():
        print(json.dumps({'error': repo + ' not clean', 'status': out}))
        return 2
    rc, out = sh('/venv/bin/python %s' % demo, cwd=repo)
    res['demo_passes_on_original'] = rc == 0
    rc, out = sh('git apply %s' % patch, cwd=repo)
    if rc != 0:
        print(json.dumps({'error': 'patch does not apply', 'out': out[-500:]}))
        return 2
    try:
        rc, out = sh('/venv/bin/python -m pytest -q -p no:cacheprovider --timeout=900 2>&1 | tail -3', cwd=repo)
        res['suite'] = out.strip().splitlines()[-1] if out.strip() else ''
        res['suite_ok'] = '199 passed' in out and '1 failed' in out
        rc, out = sh('/venv/bin/python %s' % demo, cwd=repo)
        res['demo_fails_with_patch'] = rc != 0
        res['checks'] = {}
        for c in [pid] + also:
            t0 = time.time()
            rc, out = sh(envp + './check %s --tier %s%s' % (c, tier, ''.join(' --only ' + o for o in only)), cwd=os.path.dirname(os.path.dirname(os.path.abspath(__file__))), timeout=7200)
            viol = [l for l in out.splitlines() if l.startswith('VIOLATION')]
            res['checks'][c] = {'exit': rc, 'violations': len(viol), 'first': viol[:2], 'wall_s': round(time.time() - t0),
                                'summary': [l for l in out.splitlines() if l.startswith(c + ' ')][:1],
                                'detail': [l.strip()[:300] for l in out.splitlines() if 'detail:' in l][:3]}
    finally:
        sh('git checkout -- .', cwd=repo)
    rc, out = sh('git status --porcelain', cwd=repo)
    res['repo_clean_after'] = not out.strip()
    print(json.dumps(res, indent=1))
    return 0


if __name__ == '__main__':
    sys.exit(main())
