"""Stubs S1, S2, S4 (DESIGN.md section 1.3).

S1/S2 are applied to the imported ``glom.core`` module object only inside the engine
(``VKIT_ENGINE=1``, set by vkit.worker).  Concrete replays run without them.
S4 (state reset) is always available.
"""
import os
import sys
import traceback as _tb
from collections import ChainMap, OrderedDict

import glom
import glom.core as gc

IN_ENGINE = os.environ.get("VKIT_ENGINE") == "1"
REAL_TRACEBACK = os.environ.get("VKIT_REAL_TRACEBACK") == "1"

_REAL_SCOPEVARS_INIT = gc.ScopeVars.__init__
_REAL_TRACEBACK_MOD = gc.traceback


def _scopevars_init(self, base, defaults):  # S1
    d = self.__dict__
    for k, v in dict(base).items():
        d[k] = v
    for k, v in defaults.items():
        d[k] = v


class _TB:  # S2
    format_exception_only = staticmethod(_tb.format_exception_only)

    @staticmethod
    def format_exc():
        return ('Traceback (most recent call last):\n  File "%s/core.py", line 1, in _glom\n'
                '    stub\nException: stub' % gc._PKG_DIR_PATH)


def apply_engine_stubs(real_traceback=False):
    # S1 (ScopeVars.__init__ replacement) is no longer applied: engine config E5 makes dict() of
    # concrete arguments a real dict, so the real __init__ runs under the engine.
    if not real_traceback:
        gc.traceback = _TB


def remove_engine_stubs():
    gc.ScopeVars.__init__ = _REAL_SCOPEVARS_INIT
    gc.traceback = _REAL_TRACEBACK_MOD


def selftest_stubs():
    """Differential test of S1 against the real __init__, and of S2's only contract (a line
    inside _PKG_DIR_PATH followed by the exception lines).  Run outside the engine."""
    cases = [({}, {}), ({'a': 1}, {}), ([('a', 1), ('b', 2)], {'c': 3}), ({'a': 1}, {'a': 2}),
             (OrderedDict([('z', 0), ('y', 1)]), {'x': [1]})]
    for base, defaults in cases:
        a = gc.ScopeVars.__new__(gc.ScopeVars)
        _REAL_SCOPEVARS_INIT(a, base, defaults)
        b = gc.ScopeVars.__new__(gc.ScopeVars)
        _scopevars_init(b, base, defaults)
        if list(a.__dict__.items()) != list(b.__dict__.items()):
            return 'S1 differs on %r %r' % (base, defaults)
    lines = _TB.format_exc().strip().splitlines()
    if not any(gc._PKG_DIR_PATH in l for l in lines):
        return 'S2 has no in-package line'
    return None


# ---- S4: reset of library state ----------------------------------------------------------------
# Discovered by introspection of the imported glom.* modules (module globals and class attributes
# holding plain mutable containers or registries), snapshotted at import time, restored *in place*.

_MUTABLE = (dict, list, set, OrderedDict)


def _snap(v, depth=0):
    if isinstance(v, OrderedDict):
        return OrderedDict((k, _snap(x, depth + 1)) for k, x in v.items())
    if type(v) is dict:
        return {k: _snap(x, depth + 1) for k, x in v.items()}
    if type(v) is list:
        return [_snap(x, depth + 1) for x in v]
    if type(v) is set:
        return set(v)
    return v


def _restore(live, snap):
    if isinstance(live, dict):
        live.clear()
        for k, x in snap.items():
            live[k] = _snap(x)
    elif isinstance(live, list):
        live[:] = [_snap(x) for x in snap]
    elif isinstance(live, set):
        live.clear()
        live.update(snap)


_SLOTS = []       # (container object, snapshot)
_SCALARS = []     # (owner, name, value)  -- bool/int/None flags at module or class level
_REGISTRIES = []  # (registry, snapshot of its __dict__)


def _discover():
    seen = set()
    mods = [m for n, m in sorted(sys.modules.items())
            if (n == 'glom' or n.startswith('glom.')) and m is not None and '.test' not in n]

    def consider(owner, name, val):
        if id(val) in seen:
            return
        if isinstance(val, gc.TargetRegistry):
            seen.add(id(val))
            _REGISTRIES.append((val, {k: _snap(v) for k, v in val.__dict__.items()}))
        elif isinstance(val, ChainMap):
            seen.add(id(val))
            for m in val.maps:
                consider(owner, name, m)
        elif type(val) in _MUTABLE:
            seen.add(id(val))
            _SLOTS.append((val, _snap(val)))
            if isinstance(val, dict):
                for x in list(val.values()):
                    if isinstance(x, (gc.TargetRegistry, ChainMap)):
                        consider(owner, name, x)
        elif (type(val) in (bool, int) or val is None) and name.isupper():
            if (id(owner), name) not in seen:
                seen.add((id(owner), name))
                _SCALARS.append((owner, name, val))

    for m in mods:
        for name, val in list(vars(m).items()):
            if name.startswith('__'):
                continue
            consider(m, name, val)
            if isinstance(val, type) and getattr(val, '__module__', '').startswith('glom'):
                for an, av in list(vars(val).items()):
                    if an.startswith('__'):
                        continue
                    if type(av) in _MUTABLE or isinstance(av, (gc.TargetRegistry, ChainMap)):
                        consider(val, an, av)
                    elif type(av) in (bool, int) and an.lstrip('_').isupper():
                        if (id(val), an) not in seen:
                            seen.add((id(val), an))
                            _SCALARS.append((val, an, av))


_discover()


def state_inventory():
    out = []
    for c, s in _SLOTS:
        out.append('%s@%x' % (type(c).__name__, id(c)))
    return {'containers': len(_SLOTS), 'flags': ['%s.%s' % (getattr(o, '__name__', o), n) for o, n, _ in _SCALARS],
            'registries': len(_REGISTRIES)}


def reset_glom_state(full=True):
    """Definition of 'fresh library state' (S4).  Inside the engine it runs with tracing off: all
    snapshot contents are concrete and containers are cleared without hashing their keys."""
    if IN_ENGINE:
        from crosshair.tracers import NoTracing, is_tracing
        if is_tracing():
            with NoTracing():
                return _reset()
    return _reset()


def _reset():
    for owner, name, val in _SCALARS:
        if getattr(owner, name, val) is not val:
            setattr(owner, name, val)
    for live, snap in _SLOTS:
        _restore(live, snap)
    for reg, snap in _REGISTRIES:
        d = reg.__dict__
        for k, v in snap.items():
            d[k] = _snap(v)
        for k in list(d):
            if k not in snap:
                del d[k]


def overfill_path_cache():
    """Path._CACHE in the 'more than _MAX_CACHE distinct strings seen' state, constructed directly."""
    def fill():
        for star in list(gc.Path._CACHE):
            cache = gc.Path._CACHE[star]
            for n in range(gc.Path._MAX_CACHE + 2):
                cache['dummy.%d' % n] = None
    if IN_ENGINE:
        from crosshair.tracers import NoTracing, is_tracing
        if is_tracing():
            with NoTracing():
                return fill()
    return fill()


if IN_ENGINE:
    apply_engine_stubs(real_traceback=REAL_TRACEBACK)
