"""./check driver: generate obligations, run CrossHair workers in parallel, replay counterexamples
concretely, write evidence, exit 0 / 1 (VIOLATION) / 2 (harness error)."""
import argparse
import concurrent.futures as cf
import hashlib
import importlib
import json
import os
import subprocess
import sys
import time

VERIF = os.path.dirname(os.path.dirname(os.path.abspath(__file__)))
PY = os.path.join(VERIF, '.venv', 'bin', 'python')
ALT_REPO = os.environ.get('VKIT_REPO')       # development aid: analyse another checkout (scratch worktree) instead of /repo
_TAG = ('alt-' + hashlib.sha1(ALT_REPO.encode()).hexdigest()[:8]) if ALT_REPO else ''
BUILD = os.path.join(VERIF, 'build', 'gen', _TAG) if _TAG else os.path.join(VERIF, 'build', 'gen')
REPLAYS = os.path.join(VERIF, 'replays', _TAG) if _TAG else os.path.join(VERIF, 'replays')
EVIDENCE = os.path.join(VERIF, 'build', 'evidence-' + _TAG) if _TAG else os.path.join(VERIF, 'evidence')

TIER_DEFAULTS = {'quick': {'timeout': 75, 'path_timeout': 20}, 'thorough': {'timeout': 240, 'path_timeout': 60}}
NCPU = int(os.environ.get('VKIT_JOBS', '0') or 0) or (os.cpu_count() or 4)


def env_base():
    e = dict(os.environ)
    e['PYTHONPATH'] = VERIF + ((':' + ALT_REPO) if ALT_REPO else '')
    e['PYTHONDONTWRITEBYTECODE'] = '1'
    e['PYTHONHASHSEED'] = '0'
    return e


def run_worker(mod_path, ob, tier, outdir, extra_env):
    # a per-obligation budget never undercuts the tier's default (harness files size it for the quick tier)
    to = max(ob.timeout or 0, TIER_DEFAULTS[tier]['timeout'])
    pto = max(ob.path_timeout or 0, TIER_DEFAULTS[tier]['path_timeout'])
    out = os.path.join(outdir, ob.name + '.json')
    if os.path.exists(out):
        os.unlink(out)
    e = env_base()
    e.update(extra_env)
    t0 = time.time()
    try:
        p = subprocess.run([PY, '-m', 'vkit.worker', mod_path, ob.name, str(to), str(pto), out],
                           cwd=VERIF, env=e, capture_output=True, text=True, timeout=to * 1.5 + 90)
        try:
            with open(out) as f:
                res = json.load(f)
        except Exception:
            res = {'fn': ob.name, 'status': 'engine_error', 'paths': 0,
                   'messages': [(p.stderr or '')[-2000:], (p.stdout or '')[-500:]], 'cex': None}
    except subprocess.TimeoutExpired:
        res = {'fn': ob.name, 'status': 'unknown', 'paths': 0, 'messages': ['hard wall timeout'], 'cex': None}
    res.setdefault('wall_s', round(time.time() - t0, 3))
    return res


def concrete_replay(path, extra_env=None):
    """Re-run the obligation body in a plain interpreter: no engine, no E1-E4, no S1-S3."""
    e = env_base()
    e.pop('VKIT_ENGINE', None)
    if extra_env:
        e.update(extra_env)
    p = subprocess.run([PY, '-m', 'vkit.replay', path], cwd=VERIF, env=e, capture_output=True, text=True,
                       timeout=600)
    verdict = None
    for line in p.stdout.splitlines():
        if line.startswith('REPLAY-VERDICT '):
            verdict = line.split(' ', 1)[1].strip()
    return verdict, p.stdout[-3000:] + p.stderr[-1500:]


def profile_functions(harness_name, obs, extra_env):
    """functions_encoded: glom.* functions entered by one concrete instance of every template."""
    seen = {}
    for ob in obs:
        if ob.twin or ob.template.__name__ in seen:
            continue
        seen[ob.template.__name__] = ob.sample_kwargs()
    e = env_base()
    e.update(extra_env)
    try:
        p = subprocess.run([PY, '-m', 'vkit.replay', '--profile', harness_name, json.dumps(seen)], cwd=VERIF,
                           env=e, capture_output=True, text=True, timeout=300)
        for line in p.stdout.splitlines():
            if line.startswith('PROFILE '):
                return json.loads(line[len('PROFILE '):])
    except Exception:
        pass
    return []


def write_replay(pid, harness_name, ob, cex, tier, note):
    os.makedirs(REPLAYS, exist_ok=True)
    kwargs = dict(ob.fixed)
    kwargs.update(cex or {})
    body = {'property': pid, 'harness': harness_name, 'template': ob.template.__name__, 'obligation': ob.name,
            'kwargs': kwargs, 'twin': ob.twin, 'tier': tier, 'note': note,
            'env': getattr(sys.modules.get(harness_name), 'REPLAY_ENV', {})}
    digest = hashlib.sha1(json.dumps(body, sort_keys=True, default=repr).encode()).hexdigest()[:10]
    path = os.path.join(REPLAYS, '%s-%s-%s.json' % (pid, ob.name[:60], digest))
    with open(path, 'w') as f:
        json.dump(body, f, indent=1, default=repr)
    return path


def check_property(pid, tier, only=None, keep_going=True):
    t_start = time.time()
    seed = int(os.environ.get('VERIF_SEED', '0') or 0)
    harness_name = 'harness.%s' % pid
    sys.path.insert(0, VERIF)
    # stub self-test (S1/S2 differential), outside the engine
    from vkit import stubs
    err = stubs.selftest_stubs()
    if err:
        print('HARNESS-ERROR: stub self-test failed: %s' % err)
        return 2
    h = importlib.import_module(harness_name)
    obs = h.obligations(tier)
    if only:
        obs = [o for o in obs if any(s in o.name for s in only)]
    names = [o.name for o in obs]
    assert len(set(names)) == len(names), 'duplicate obligation names: %r' % [n for n in names if names.count(n) > 1]
    from vkit.ob import generate_module
    os.makedirs(BUILD, exist_ok=True)
    mod_path = os.path.join(BUILD, '%s_%s.py' % (pid, tier))
    with open(mod_path, 'w') as f:
        f.write(generate_module(harness_name, obs))
    outdir = os.path.join(BUILD, '%s_%s_out' % (pid, tier))
    os.makedirs(outdir, exist_ok=True)
    extra_env = dict(getattr(h, 'ENGINE_ENV', {}))

    results = {}
    # longest first
    order = sorted(obs, key=lambda o: -(o.timeout or 0))
    with cf.ThreadPoolExecutor(max_workers=NCPU) as ex:
        futs = {ex.submit(run_worker, mod_path, ob, tier, outdir, extra_env): ob for ob in order}
        for fut in cf.as_completed(futs):
            ob = futs[fut]
            results[ob.name] = fut.result()

    violations, harness_errors, inconclusive, discharged, vacuous = [], [], [], [], []
    twins_ok = 0
    paths = queries = 0
    solver_time = 0.0
    for ob in obs:
        r = results[ob.name]
        paths += r.get('paths', 0)
        s = r.get('solver') or {}
        queries += s.get('queries', 0)
        solver_time += s.get('time_s', 0.0)
        st = r['status']
        if ob.twin:
            if st == 'refuted':
                rp = write_replay(pid, harness_name, ob, r.get('cex'), tier, 'twin')
                verdict, out = concrete_replay(rp, getattr(h, 'REPLAY_ENV', None))
                if verdict == 'REACHED':
                    twins_ok += 1
                    os.unlink(rp)
                else:
                    vacuous.append((ob, 'twin counterexample did not reach region concretely: %s' % (verdict,), out))
            else:
                vacuous.append((ob, 'twin not refuted (%s)' % st, json.dumps(r.get('messages'))[:600]))
            continue
        if st == 'confirmed':
            discharged.append(ob)
        elif st == 'refuted':
            if r.get('cex_unserialisable') or r.get('cex') is None:
                harness_errors.append((ob, 'counterexample not serialisable', json.dumps(r.get('messages'))[:800]))
                continue
            rp = write_replay(pid, harness_name, ob, r.get('cex'), tier, r.get('messages'))
            verdict, out = concrete_replay(rp, getattr(h, 'REPLAY_ENV', None))
            if verdict in ('FAILS', 'RAISES'):
                violations.append((ob, rp, out))
            elif verdict == 'HOLDS':
                harness_errors.append((ob, 'counterexample does not reproduce outside the engine (%s)' % rp,
                                       json.dumps(r.get('messages'))[:800]))
            else:
                harness_errors.append((ob, 'replay crashed (%s)' % rp, out[-800:]))
        else:
            inconclusive.append((ob, st, json.dumps(r.get('messages'))[:400]))

    # known findings: replay stored witnesses, print KNOWN-FINDING lines
    from vkit import common
    known_lines = []
    for k in common.KNOWN:
        if isinstance(k, dict) and k.get('property') == pid and k.get('status') == 'open':
            w = k.get('witness_replay')
            still = None
            if w:
                body = {'property': pid, 'harness': harness_name, 'template': w['template'], 'kwargs': w['kwargs'],
                        'twin': None, 'witness_of': k['id']}
                os.makedirs(REPLAYS, exist_ok=True)
                wp = os.path.join(REPLAYS, 'known-%s.json' % k['id'])
                with open(wp, 'w') as f:
                    json.dump(body, f, indent=1)
                e2 = dict(getattr(h, 'REPLAY_ENV', None) or {})
                e2['VKIT_IGNORE_KNOWN'] = '1'
                verdict, out = concrete_replay(wp, e2)
                still = verdict in ('FAILS', 'RAISES')
            if still or still is None:
                known_lines.append('KNOWN-FINDING: property=%s %s' % (pid, k.get('what', k['id'])))
            else:
                known_lines.append('NOTE: known finding %s no longer reproduces (witness holds)' % k['id'])

    claims = [o for o in obs if not o.twin]
    funcs = profile_functions(harness_name, obs, getattr(h, 'REPLAY_ENV', None) or {})
    samples = []
    for ob in claims[:6] + [o for o in obs if o.twin][:2]:
        d = ob.describe()
        d['status'] = results[ob.name]['status']
        d['paths'] = results[ob.name].get('paths', 0)
        samples.append(d)
    meta = getattr(h, 'META', {})
    wall = round(time.time() - t_start, 2)
    coverage = {
        'explanation': meta.get('explanation', '') + ' Decided by CrossHair 0.0.110 (symbolic execution of the real glom '
        'code from /repo, z3 5.1): an obligation counts as discharged only on "Confirmed over all paths" within the '
        'stated bounds; counterexamples are replayed concretely against the unstubbed code before being reported.',
        'obligations': len(claims),
        'discharged': len(discharged),
        'inconclusive': len(inconclusive),
        'inconclusive_list': [{'obligation': o.name, 'status': s} for o, s, _ in inconclusive][:50],
        'vacuity_twins': len([o for o in obs if o.twin]),
        'vacuity_twins_refuted_and_replayed': twins_ok,
        'paths': paths,
        'solver_queries': queries,
        'solver_time_s': round(solver_time, 2),
        'functions_encoded': funcs,
        'bounds': meta.get('bounds', {}).get(tier, meta.get('bounds', {})),
        'stubs': meta.get('stubs', []),
        'outside_claim': meta.get('outside_claim', []),
        'samples': samples,
        'evaluations': paths,
        'distinct_nontrivial': len(discharged),
        'rule': 'one evaluation = one symbolic execution path closed by the solver; distinct_nontrivial = obligations '
                '(solver-closed sub-families of inputs) confirmed over all paths; their vacuity twins must be refuted',
        'checker_cmd': './check %s --tier %s' % (pid, tier),
        'trusted_base': ['CPython 3.12', 'CrossHair 0.0.110 builtin models', 'z3 5.1.0', 'E1-E4 engine config',
                         'reference models in harness/%s.py' % pid] + meta.get('stubs', []),
        'exhaustive': len(discharged) == len(claims) and not vacuous and not violations and not harness_errors,
        'known_findings_open': [l for l in known_lines if l.startswith('KNOWN-FINDING')],
    }
    evidence = {
        'property_id': pid, 'tier': tier, 'seed': seed, 'level': 'other', 'coverage': coverage,
        'assumptions': meta.get('assumptions', []) + ['bounds as listed under coverage.bounds; nothing is claimed outside them'],
        'wall_s': wall, 'violations': len(violations),
    }
    os.makedirs(EVIDENCE, exist_ok=True)
    if not only:
        with open(os.path.join(EVIDENCE, '%s.json' % pid), 'w') as f:
            json.dump(evidence, f, indent=1, default=repr)
        os.makedirs(os.path.join(EVIDENCE, 'tiers'), exist_ok=True)      # the last run of each tier, kept side by side
        with open(os.path.join(EVIDENCE, 'tiers', '%s-%s.json' % (pid, tier)), 'w') as f:
            json.dump(evidence, f, indent=1, default=repr)

    for l in known_lines:
        print(l)
    print('%s %s: obligations=%d discharged=%d inconclusive=%d twins=%d/%d paths=%d queries=%d solver=%.1fs wall=%.1fs'
          % (pid, tier, len(claims), len(discharged), len(inconclusive), twins_ok,
             len([o for o in obs if o.twin]), paths, queries, solver_time, wall))
    for ob, st, msg in inconclusive:
        print('  INCONCLUSIVE %s (%s) paths=%s' % (ob.name, st, results[ob.name].get('paths')))
        if st in ('engine_error', 'pre_unsat'):
            print('     ' + msg[:600])
    for ob, why, detail in vacuous:
        print('  VACUOUS %s: %s\n     %s' % (ob.name, why, detail[:600]))
    for ob, why, detail in harness_errors:
        print('  HARNESS-ERROR %s: %s\n     %s' % (ob.name, why, detail[:800]))
    for ob, rp, out in violations:
        print('  counterexample for %s:' % ob.name)
        for line in out.splitlines()[-12:]:
            print('     ' + line)
        print('VIOLATION property=%s replay=%s' % (pid, rp))
    if violations:
        return 1
    if harness_errors or vacuous:
        print('HARNESS-ERROR: %d non-reproducing counterexamples, %d vacuous families' % (len(harness_errors), len(vacuous)))
        return 2
    return 0


def main():
    ap = argparse.ArgumentParser()
    ap.add_argument('what')
    ap.add_argument('rest', nargs='*')
    ap.add_argument('--tier', default=os.environ.get('VERIF_TIER', 'quick'))
    ap.add_argument('--only', action='append')
    a = ap.parse_args()
    if a.what == 'replay':
        verdict, out = concrete_replay(a.rest[0])
        print(out)
        sys.exit(0 if verdict in ('HOLDS', 'REACHED') else 1)
    if a.what == 'all':
        rc = 0
        for pid in ['C%02d' % i for i in range(1, 21)]:
            if os.path.exists(os.path.join(VERIF, 'harness', pid + '.py')):
                rc = max(rc, check_property(pid, a.tier))
        sys.exit(rc)
    sys.exit(check_property(a.what, a.tier, a.only))


if __name__ == '__main__':
    main()
